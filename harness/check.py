"""Entry point of every registered check."""
import argparse
import importlib
import os
import sys
import traceback

sys.path.insert(0, os.path.dirname(os.path.abspath(__file__)))
from common import Machinery  # noqa: E402

MODULES = {
    "C01": "checks.fixed", "C02": "checks.fixed", "C03": "checks.po2", "C04": "checks.binary", "C05": "checks.auto", "C06": "checks.grad", "C07": "checks.qnoise", "C08": "checks.stoch", "C09": "checks.roundtrip", "C10": "checks.strings", "C11": "checks.layers", "C12": "checks.mquant", "C13": "checks.modelrt", "C14": "checks.export", "C15": "checks.bnfold", "C16": "checks.qtypes", "C19": "checks.qops", "C20": "checks.autoq", "C17": "checks.qtypes", "C18": "checks.qmodel",
}


def main():
  ap = argparse.ArgumentParser()
  ap.add_argument("pid")
  ap.add_argument("--tier", default=os.environ.get("VERIF_TIER", "quick"), choices=["quick", "thorough"])
  ap.add_argument("--replay", default=None)
  a = ap.parse_args()
  seed = int(os.environ.get("VERIF_SEED", "20261002"))
  try:
    mod = importlib.import_module(MODULES[a.pid])
    if a.replay:
      rc = mod.replay(a.pid, a.replay)
    else:
      rc = mod.run(a.pid, a.tier, seed)
  except Machinery as e:
    print("MACHINERY FAILURE (not a verdict about the repository): %s" % e)
    sys.exit(2)
  except Exception:
    traceback.print_exc()
    print("MACHINERY FAILURE (unexpected exception in the harness)")
    sys.exit(2)
  sys.exit(rc)


if __name__ == "__main__":
  main()
