"""Shared machinery: exact dyadic encoding, TLC runner/parsers, evidence, findings, verdict lines.

Everything here is stdlib + numpy only; TensorFlow is imported by the drivers, never here.
"""
import json
import math
import os
import re
import shutil
import struct
import subprocess
import sys
import tempfile
import time

VERIF = os.path.dirname(os.path.dirname(os.path.abspath(__file__)))
SPEC = os.path.join(VERIF, "spec")
REPO = os.environ.get("VERIF_REPO", "/repo")          # development aid: sweep seeded changes in scratch worktrees
OUT = os.environ.get("VERIF_OUT", VERIF)               # where evidence/ and replays/ are written
TLA_CP = "/opt/veriftools/tla/tla2tools.jar:/opt/veriftools/tla/CommunityModules-deps.jar"


class Machinery(Exception):
  """Anything that is not a verdict about /repo: TLC/SANY error, parser error, import failure."""


# ----------------------------------------------------------------------------------------------------------------
# exact float32 <-> dyadic <<m, e>> (value = m * 2^e, |m| < 2^24, m odd or 0)
# ----------------------------------------------------------------------------------------------------------------

def f32_bits(x):
  return struct.unpack("<I", struct.pack("<f", float(x)))[0]


def dy(x):
  """float (must be exactly a float32 value, finite) -> [m, e] normalised (m odd) ; 0 -> [0, 0]."""
  x = float(x)
  if x != x or x in (float("inf"), float("-inf")):
    raise ValueError("non-finite %r" % x)
  if x == 0.0:
    return [0, 0]
  m, e = math.frexp(x)          # x = m * 2^e, 0.5 <= |m| < 1
  mi = int(m * (1 << 53))
  e -= 53
  while mi % 2 == 0:
    mi //= 2
    e += 1
  return [mi, e]


def undy(p):
  return math.ldexp(p[0], p[1])


def dy_list(a):
  """numpy array / nested list -> nested list of dyadics (same nesting)."""
  import numpy as np
  a = np.asarray(a, dtype=np.float64)
  if a.ndim == 0:
    return dy(a)
  return [dy_list(v) for v in a]


def dy_flat(a):
  import numpy as np
  return [dy(v) for v in np.asarray(a, dtype=np.float64).ravel()]


def is_f32(x):
  import numpy as np
  return float(np.float32(x)) == float(x)


def next_up(x, k=1):
  import numpy as np
  v = np.float32(x)
  for _ in range(abs(k)):
    v = np.nextafter(v, np.float32(np.inf if k > 0 else -np.inf))
  return float(v)


# ----------------------------------------------------------------------------------------------------------------
# TLC
# ----------------------------------------------------------------------------------------------------------------

class TLCResult:
  def __init__(self, out, rc, wall):
    self.out = out
    self.rc = rc
    self.wall = wall
    self.generated = 0
    self.distinct = 0
    self.depth = 0
    m = None
    for m in re.finditer(r"(\d+) states generated, (\d+) distinct states found", out):
      pass
    if m:
      self.generated = int(m.group(1))
      self.distinct = int(m.group(2))
    m = re.search(r"The depth of the complete state graph search is (\d+)", out)
    if m:
      self.depth = int(m.group(1))
    self.ok = ("Model checking completed. No error has been found." in out) or \
              ("Finished computing initial states" in out and "Error:" not in out and rc == 0)
    self.invariant_violated = re.findall(r"Invariant (\w+) is violated", out)
    self.property_violated = re.findall(r"Action property (\w+) is violated|Temporal properties were violated", out)
    self.errors = [l for l in out.splitlines() if l.startswith("Error:")]
    self.coverage = parse_coverage(out)

  def prints(self):
    return parse_prints(self.out)


def parse_coverage(out):
  """-> {action name: (distinct, generated)} from '-coverage' output lines '<Name line ..>: d:g'."""
  cov = {}
  for m in re.finditer(r"^<(\w+) line [^>]*>: (\d+):(\d+)", out, re.M):
    cov[m.group(1)] = (int(m.group(2)), int(m.group(3)))
  return cov


def _match_bracket(s, i):
  """s[i] == '<' of '<<' ; return index just after matching '>>' (handles nested << >>, [ ], strings)."""
  depth = 0
  n = len(s)
  j = i
  while j < n:
    if s.startswith("<<", j):
      depth += 1
      j += 2
    elif s.startswith(">>", j):
      depth -= 1
      j += 2
      if depth == 0:
        return j
    elif s[j] == '"':
      j += 1
      while j < n and s[j] != '"':
        if s[j] == "\\":
          j += 1
        j += 1
      j += 1
    else:
      j += 1
  raise Machinery("unbalanced TLC print")


def parse_tla_value(s):
  """Parse a TLA+ value as printed by TLC (ints, strings, TRUE/FALSE, <<..>>, {..}, [a |-> v, ..]) into Python."""
  pos = [0]
  n = len(s)

  def ws():
    while pos[0] < n and s[pos[0]] in " \t\r\n":
      pos[0] += 1

  def val():
    ws()
    if pos[0] >= n:
      raise Machinery("eof in TLA value")
    c = s[pos[0]]
    if s.startswith("<<", pos[0]):
      pos[0] += 2
      items = []
      ws()
      if s.startswith(">>", pos[0]):
        pos[0] += 2
        return items
      while True:
        items.append(val())
        ws()
        if s.startswith(">>", pos[0]):
          pos[0] += 2
          return items
        if s[pos[0]] != ",":
          raise Machinery("bad tuple at %d in %r" % (pos[0], s[:200]))
        pos[0] += 1
    if c == "{":
      pos[0] += 1
      items = []
      ws()
      if s[pos[0]] == "}":
        pos[0] += 1
        return {"__set__": items}
      while True:
        items.append(val())
        ws()
        if s[pos[0]] == "}":
          pos[0] += 1
          return {"__set__": items}
        if s[pos[0]] != ",":
          raise Machinery("bad set")
        pos[0] += 1
    if c == "[":
      pos[0] += 1
      rec = {}
      while True:
        ws()
        m = re.match(r"\w+", s[pos[0]:])
        if not m:
          raise Machinery("bad record at %d in %r" % (pos[0], s[:200]))
        k = m.group(0)
        pos[0] += len(k)
        ws()
        if not s.startswith("|->", pos[0]):
          raise Machinery("bad record arrow")
        pos[0] += 3
        rec[k] = val()
        ws()
        if s[pos[0]] == "]":
          pos[0] += 1
          return rec
        if s[pos[0]] != ",":
          raise Machinery("bad record sep")
        pos[0] += 1
    if c == "(":
      # function printed as (k :> v @@ k :> v)
      pos[0] += 1
      fn = {}
      while True:
        k = val()
        ws()
        if not s.startswith(":>", pos[0]):
          raise Machinery("bad function")
        pos[0] += 2
        fn[json.dumps(k) if not isinstance(k, (str, int)) else k] = val()
        ws()
        if s[pos[0]] == ")":
          pos[0] += 1
          return fn
        if not s.startswith("@@", pos[0]):
          raise Machinery("bad function sep")
        pos[0] += 2
    if c == '"':
      j = pos[0] + 1
      buf = []
      while s[j] != '"':
        if s[j] == "\\":
          j += 1
        buf.append(s[j])
        j += 1
      pos[0] = j + 1
      return "".join(buf)
    m = re.match(r"-?\d+", s[pos[0]:])
    if m:
      pos[0] += len(m.group(0))
      return int(m.group(0))
    m = re.match(r"\w+", s[pos[0]:])
    if m:
      pos[0] += len(m.group(0))
      w = m.group(0)
      return True if w == "TRUE" else False if w == "FALSE" else w
    raise Machinery("cannot parse TLA value at %d: %r" % (pos[0], s[pos[0]:pos[0] + 60]))

  v = val()
  return v


def parse_prints(out):
  """All top-level tuples TLC printed with PrintT (lines starting with '<<'), robust to interleaving/wrapping."""
  res = []
  # strip TLC's own message lines: keep text; find '<<' at line starts
  i = 0
  n = len(out)
  while True:
    m = re.compile(r"^<<", re.M).search(out, i)
    if not m:
      break
    j = _match_bracket(out, m.start())
    res.append(parse_tla_value(out[m.start():j]))
    i = j
  return res


def run_tlc(module, cfg=None, workers=None, env=None, coverage=False, simulate=None, depth=None, seed=None,
            timeout=3600, extra=(), deadlock=False, cwd=None, dfs=False):
  """Run TLC on SPEC/<module>.tla with SPEC/<cfg>.cfg from a scratch metadir; returns TLCResult.

  Raises Machinery on SANY/parse/evaluation errors that are not invariant/property violations.
  """
  if os.environ.get("VERIF_SELFCHECK") and os.path.basename(module).startswith("Trace_") and not extra:
    import selfcheck
    kw = dict(cfg=cfg, workers=workers, coverage=False, timeout=timeout, deadlock=deadlock, cwd=cwd, dfs=dfs,
              extra=("-selfcheck-inner",))
    selfcheck.maybe_selfcheck(module, cfg, env, lambda e: run_tlc(module, env=e, **kw))
  extra = tuple(x for x in extra if x != "-selfcheck-inner")
  workers = workers or min(16, os.cpu_count() or 1)
  meta = tempfile.mkdtemp(prefix="tlcmeta_", dir=scratch_root())
  cmd = ["java", "-XX:+UseSerialGC" if workers == 1 else "-XX:+UseParallelGC", "-Xss16m"]
  if dfs:
    cmd.append("-Dtlc2.tool.queue.IStateQueue=StateDeque")
  cmd += ["-cp", TLA_CP, "tlc2.TLC", "-metadir", meta, "-noGenerateSpecTE", "-workers", str(workers)]
  if cfg:
    cmd += ["-config", os.path.join(SPEC, cfg if cfg.endswith(".cfg") else cfg + ".cfg")]
  if not deadlock:
    cmd += ["-deadlock"]
  if coverage:
    cmd += ["-coverage", "1"]
  if simulate:
    cmd += ["-simulate", simulate]
  if depth:
    cmd += ["-depth", str(depth)]
  if seed is not None:
    cmd += ["-seed", str(seed)]
  cmd += list(extra)
  cmd += [os.path.join(SPEC, module if module.endswith(".tla") else module + ".tla")]
  e = dict(os.environ)
  if env:
    e.update({k: str(v) for k, v in env.items()})
  t0 = time.time()
  try:
    p = subprocess.run(cmd, stdout=subprocess.PIPE, stderr=subprocess.STDOUT, env=e, timeout=timeout,
                       cwd=cwd or SPEC, text=True, errors="replace")
  except subprocess.TimeoutExpired:
    shutil.rmtree(meta, ignore_errors=True)
    raise Machinery("TLC timeout on %s" % module)
  shutil.rmtree(meta, ignore_errors=True)
  r = TLCResult(p.stdout, p.returncode, time.time() - t0)
  bad = [l for l in r.errors if not re.search(r"Invariant \w+ is violated|Action property|Temporal properties|"
                                               r"The behavior up to this point|Postcondition|Deadlock reached", l)]
  if re.search(r"Parsing or semantic analysis failed|Unknown operator|\*\*\* Errors:|Fatal error|"
               r"java\.lang\.\w+(Exception|Error)|TLC threw an unexpected exception|was not able to|"
               r"Error: TLC|evaluat", "\n".join(bad)) or (p.returncode != 0 and not r.errors):
    raise Machinery("TLC failed on %s (rc=%d):\n%s" % (module, p.returncode, p.stdout[-4000:]))
  return r


_SCRATCH = None


def scratch_root():
  """Per-process scratch directory outside /repo and /verif, removed at exit."""
  global _SCRATCH
  if _SCRATCH is None:
    import atexit
    _SCRATCH = tempfile.mkdtemp(prefix="verif_")
    if not os.environ.get("VERIF_KEEP_SCRATCH"):          # debugging aid: keep traces for inspection
      atexit.register(lambda: shutil.rmtree(_SCRATCH, ignore_errors=True))
  return _SCRATCH


def check_coverage(res, required, what):
  """Vacuity guard: every action/operator name in `required` must have been evaluated at least once."""
  zero = [a for a in required if res.coverage.get(a, (0, 0))[1] == 0]
  if zero:
    raise Machinery("%s: actions never taken (vacuous model): %s" % (what, zero))
  return zero


# ----------------------------------------------------------------------------------------------------------------
# driver sub-processes (the real code runs in its own interpreter under the legacy-Keras environment)
# ----------------------------------------------------------------------------------------------------------------

DRIVER_ENV = {
    "TF_USE_LEGACY_KERAS": "1",
    "PROTOCOL_BUFFERS_PYTHON_IMPLEMENTATION": "python",
    "PYTHONHASHSEED": "0",
    "TF_CPP_MIN_LOG_LEVEL": "3",
    "CUDA_VISIBLE_DEVICES": "",
    "QKERAS_VERIF": "1",
    "TF_NUM_INTRAOP_THREADS": "1",
    "TF_NUM_INTEROP_THREADS": "1",
    "OMP_NUM_THREADS": "1",
}


def run_driver(script, args, out_path=None, timeout=7200, keras3=False, env=None):
  """Run harness/<script> with /venv python against REPO. Returns (rc, stdout)."""
  e = dict(os.environ)
  e.update(DRIVER_ENV)
  if keras3:
    e.pop("TF_USE_LEGACY_KERAS", None)
  if env:
    e.update(env)
  e["PYTHONPATH"] = REPO + os.pathsep + os.path.join(VERIF, "harness")
  e["PYTHONDONTWRITEBYTECODE"] = "1"
  cmd = ["/venv/bin/python", os.path.join(VERIF, "harness", script)] + [str(a) for a in args]
  t0 = time.time()
  try:
    p = subprocess.run(cmd, stdout=subprocess.PIPE, stderr=subprocess.PIPE, env=e, timeout=timeout, text=True,
                       errors="replace", cwd=scratch_root())
  except subprocess.TimeoutExpired:
    raise Machinery("driver timeout: %s" % script)
  if p.returncode != 0:
    err = "\n".join(l for l in p.stderr.splitlines()
                    if not re.match(r"^(WARNING|I0000|E0000|W0000|\s*$)", l))
    raise Machinery("driver %s failed rc=%d:\n%s\n%s" % (script, p.returncode, p.stdout[-2000:], err[-6000:]))
  return p.stdout, time.time() - t0


def run_drivers_parallel(jobs, timeout=7200):
  """jobs: list of (script, args). Runs them concurrently (TF import dominates); returns list of stdout."""
  import concurrent.futures as cf
  with cf.ThreadPoolExecutor(max_workers=min(len(jobs), 14) or 1) as ex:
    futs = [ex.submit(run_driver, s, a, None, timeout) for (s, a) in jobs]
    return [f.result()[0] for f in futs]


# ----------------------------------------------------------------------------------------------------------------
# findings, verdict lines, evidence
# ----------------------------------------------------------------------------------------------------------------

def load_findings(pid):
  path = os.path.join(VERIF, "known_findings.json")
  if not os.path.exists(path):
    return []
  data = json.load(open(path))
  return [f for f in data.get("findings", []) if f["property"] == pid]


def match_finding(findings, ident):
  """A finding matches when every key of its 'match' dict equals (or, for lists, contains) the case identity."""
  for f in findings:
    ok = True
    for k, v in f["match"].items():
      iv = ident.get(k, None)
      if isinstance(v, list):
        if iv not in v:
          ok = False
          break
      elif iv != v:
        ok = False
        break
    if ok:
      return f
  return None


class Check:
  """Collects verdicts for one property run and writes the evidence file."""

  def __init__(self, pid, tier, seed):
    self.pid = pid
    self.tier = tier
    self.seed = seed
    self.t0 = time.time()
    self.findings = load_findings(pid)
    self.hit = {}
    self.violations = []
    self.deviations = {}
    self.cov = {"states": 0, "transitions": 0, "traces_validated_against_impl": 0, "evaluations": 0,
                "samples": [], "mc_runs": [], "trace_runs": [], "exhaustive": False}
    self.distinct = set()
    self.assumptions = []
    self.rule = ""

  # -- TLC accounting
  def add_mc(self, name, res, note=""):
    self.cov["states"] += res.distinct
    self.cov["transitions"] += res.generated
    self.cov["mc_runs"].append({"model": name, "distinct_states": res.distinct, "states_generated": res.generated,
                                "depth": res.depth, "wall_s": round(res.wall, 2), "note": note,
                                "actions_covered": {k: v[1] for k, v in res.coverage.items()} or None})
    if not res.ok or res.invariant_violated or res.property_violated:
      raise Machinery("model checking of %s failed (the design itself violates its property or TLC erred):\n%s"
                      % (name, res.out[-3000:]))

  def add_trace_run(self, name, res, events, traces=None):
    self.cov["states"] += res.distinct
    self.cov["transitions"] += res.generated
    self.cov["traces_validated_against_impl"] += traces if traces is not None else events
    self.cov["evaluations"] += events
    self.cov["trace_runs"].append({"trace_spec": name, "events": events, "distinct_states": res.distinct,
                                   "wall_s": round(res.wall, 2)})

  def sample(self, s, limit=6):
    if len(self.cov["samples"]) < limit:
      self.cov["samples"].append(s)

  def key(self, k):
    self.distinct.add(k if isinstance(k, (str, int, tuple)) else json.dumps(k, sort_keys=True))

  def deviation(self, kind, n=1):
    self.deviations[kind] = self.deviations.get(kind, 0) + n

  # -- verdicts
  def violation(self, ident, detail):
    """ident: dict identifying the failing case (class, clause, cfg...). detail: full replayable case."""
    f = match_finding(self.findings, ident)
    if f is not None:
      self.hit.setdefault(f["id"], {"finding": f, "count": 0, "example": detail})
      self.hit[f["id"]]["count"] += 1
      return False
    self.violations.append((ident, detail))
    return True

  def finish(self):
    wall = time.time() - self.t0
    rdir = os.path.join(OUT, "replays", self.pid)
    out_lines = []
    for fid, h in sorted(self.hit.items()):
      out_lines.append("KNOWN-FINDING: property=%s %s [%s; %d case(s) this run]" %
                       (self.pid, h["finding"]["what"], fid, h["count"]))
    if os.path.isdir(rdir):
      for fn in os.listdir(rdir):
        if fn.startswith("%s_%s_" % (self.pid, self.tier)):
          os.remove(os.path.join(rdir, fn))
    if self.violations:
      os.makedirs(rdir, exist_ok=True)
      seen = {}
      for ident, detail in self.violations:
        k = json.dumps(ident, sort_keys=True)
        seen.setdefault(k, []).append(detail)
      for n, (k, details) in enumerate(sorted(seen.items())):
        if n >= 40:
          break
        path = os.path.join(rdir, "%s_%s_%03d.json" % (self.pid, self.tier, n))
        with open(path, "w") as fh:
          json.dump({"property": self.pid, "identity": json.loads(k), "count": len(details),
                     "cases": details[:5], "seed": self.seed, "tier": self.tier}, fh, indent=1, default=str)
        out_lines.append("VIOLATION property=%s replay=%s" % (self.pid, path))
        out_lines.append("  identity: %s (%d cases)" % (k, len(details)))
    cov = dict(self.cov)
    cov["distinct_nontrivial"] = len(self.distinct)
    cov["rule"] = self.rule
    cov["deviations"] = self.deviations
    cov["known_findings_hit"] = {k: v["count"] for k, v in self.hit.items()}
    if not cov["samples"]:
      cov["samples"] = ["(no sample recorded)"]
    cov["states"] = max(cov["states"], 0)
    ev = {"property_id": self.pid, "tier": self.tier, "seed": self.seed, "level": "model_checking",
          "coverage": cov, "assumptions": self.assumptions, "wall_s": round(wall, 2),
          "violations": len(self.violations)}
    os.makedirs(os.path.join(OUT, "evidence"), exist_ok=True)
    with open(os.path.join(OUT, "evidence", self.pid + ".json"), "w") as fh:
      json.dump(ev, fh, indent=1, default=str)
    for l in out_lines:
      print(l)
    print("%s %s: %d violation(s), %d known-finding id(s) hit, %d deviations, states=%d, events=%d, wall=%.1fs" %
          (self.pid, self.tier, len(self.violations), len(self.hit), sum(self.deviations.values()),
           cov["states"], cov["evaluations"], wall))
    return 1 if self.violations else 0


def write_ndjson(path, events):
  with open(path, "w") as fh:
    for e in events:
      fh.write(json.dumps(e, separators=(",", ":")))
      fh.write("\n")


def read_ndjson(path):
  return [json.loads(l) for l in open(path) if l.strip()]


# ----------------------------------------------------------------------------------------------------------------
# batch trace judging: several shards, one JVM each, in parallel
# ----------------------------------------------------------------------------------------------------------------

def judge_shards(chk, spec, cfg, shards, workers_each=1, label=None, count_events=True):
  """shards: list of dict(env={TRACE_FILE:..., ...}, n=<number of events>). Runs TLC trace spec per shard.

  Returns list (per shard) of lists of parsed PrintT tuples. Verifies each trace was consumed completely
  (distinct states = n + 1) - anything else is a machinery failure.
  """
  import concurrent.futures as cf

  def one(sh):
    if sh["n"] == 0:
      return None
    return run_tlc(spec, cfg, workers=workers_each, env=sh["env"], timeout=sh.get("timeout", 7200))

  with cf.ThreadPoolExecutor(max_workers=16) as ex:
    results = list(ex.map(one, shards))
  outs = []
  for sh, res in zip(shards, results):
    if res is None:
      outs.append([])
      continue
    if res.distinct != sh["n"] + 1:
      raise Machinery("%s: trace not consumed (%d states for %d events)\n%s" %
                      (spec, res.distinct, sh["n"], res.out[-3000:]))
    if count_events:
      chk.add_trace_run(label or spec, res, sh["n"], sh.get("traces"))
    outs.append(res.prints())
  return outs


def sharded_conformance(chk, driver, cfgs, trace_spec, tier, seed, tag, nshards=14, extra_args=()):
  """Run <driver> on nshards slices of cfgs, judge each slice's trace with <trace_spec>.

  Yields (cfg, event, clauses, shard_events) for every REJECT and ("error", cfg, errrec) for driver-side errors via
  the returned list of tuples: [("reject", cfg, ev, clauses), ("error", cfg, err)]; also returns per-shard events
  for accounting.
  """
  root = scratch_root()
  cpath = os.path.join(root, tag + "_cfgs.json")
  json.dump(cfgs, open(cpath, "w"))
  prefix = os.path.join(root, tag)
  outs = run_drivers_parallel([(driver, [cpath, prefix, tier, seed, s, nshards] + list(extra_args))
                               for s in range(nshards)])
  shards = []
  for s in range(nshards):
    n = json.loads(outs[s].strip().splitlines()[-1])["events"]
    shards.append({"env": {"TRACE_FILE": "%s.%d.ndjson" % (prefix, s), "CFG_FILE": "%s.%d.cfg.json" % (prefix, s)},
                   "n": n})
  prints = judge_shards(chk, trace_spec, trace_spec, shards)
  results = []
  all_events = []
  for s in range(nshards):
    scfg = json.load(open("%s.%d.cfg.json" % (prefix, s)))
    evs = read_ndjson("%s.%d.ndjson" % (prefix, s)) if shards[s]["n"] else []
    all_events.append((scfg, evs))
    for e in json.load(open("%s.%d.err.json" % (prefix, s))):
      results.append(("error", scfg[e["c"] - 1], e))
    for p in prints[s]:
      if p and p[0] == "REJECT":
        ev = evs[p[1] - 1]
        results.append(("reject", scfg[ev["c"] - 1], ev, p[2]))
  return results, all_events


# ----------------------------------------------------------------------------------------------------------------
# TLC -simulate: behaviours as lists of (action label, action args, state dict)
# ----------------------------------------------------------------------------------------------------------------

def simulate(module, cfg, num, depth, seed, workers=1):
  d = tempfile.mkdtemp(prefix="sim_", dir=scratch_root())
  res = run_tlc(module, cfg, workers=workers, simulate="file=%s/tr,num=%d" % (d, num), depth=depth, seed=seed)
  behaviours = []
  for fn in sorted(os.listdir(d)):
    if not fn.startswith("tr_"):
      continue
    txt = open(os.path.join(d, fn)).read()
    steps = []
    for m in re.finditer(r"\\\* <(\w+)(\(([^>]*?)\))? line [^>]*>\s*\nSTATE_\d+ ==\s*\n(.*?)(?=\n\n\\\*|\n=+|\Z)", txt, re.S):
      label, args, body = m.group(1), m.group(3), m.group(4)
      state = {}
      for vm in re.finditer(r"^/\\ (\w+) = (.*?)(?=^/\\ \w+ = |\Z)", body, re.S | re.M):
        state[vm.group(1)] = parse_tla_value(vm.group(2).strip())
      a = [parse_tla_value(x.strip()) for x in args.split(",")] if args else []
      steps.append((label, a, state))
    if steps:
      behaviours.append(steps)
  shutil.rmtree(d, ignore_errors=True)
  return behaviours, res


def sharded_events(chk, driver, first_arg, trace_spec, tier, seed, tag, nshards=14, extra_env=None):
  """Like sharded_conformance but without per-shard configuration files: returns (rejects, errors, events) where
  rejects = [(event, clauses)], errors = driver-side error records, events = all recorded events."""
  root = scratch_root()
  prefix = os.path.join(root, tag)
  outs = run_drivers_parallel([(driver, [first_arg, prefix, tier, seed, s, nshards]) for s in range(nshards)])
  shards = []
  for s in range(nshards):
    n = json.loads(outs[s].strip().splitlines()[-1])["events"]
    env = {"TRACE_FILE": "%s.%d.ndjson" % (prefix, s)}
    env.update(extra_env or {})
    shards.append({"env": env, "n": n})
  prints = judge_shards(chk, trace_spec, trace_spec, shards)
  rejects, errors, events = [], [], []
  for s in range(nshards):
    evs = read_ndjson("%s.%d.ndjson" % (prefix, s)) if shards[s]["n"] else []
    events += evs
    errors += json.load(open("%s.%d.err.json" % (prefix, s)))
    for p in prints[s]:
      if p and p[0] == "REJECT":
        rejects.append((evs[p[1] - 1], p[2]))
  return rejects, errors, events
