"""Driver for C09 / C10 (print direction): replays (configuration, route sequence) behaviours on real quantizers.

usage: drive_roundtrip.py <cfgs.json> <out_prefix> <tier> <seed> <shard> <nshards>
"""
import itertools
import json
import random
import sys
import numpy as np
from qk import tf, Q, f32
from qkeras import quantizer_registry
from qkeras import utils as qutils
from common import dy, write_ndjson

K = tf.keras.backend
DRAW = [0.5]


def fake_uniform(shape, minval=0, maxval=None, dtype=tf.float32, seed=None, name=None):
  u = tf.fill(shape, tf.constant(DRAW[0], dtype=tf.float32))
  if maxval is None:
    return tf.cast(u, dtype)
  return tf.cast(tf.cast(minval, tf.float32) + u * (tf.cast(maxval, tf.float32) - tf.cast(minval, tf.float32)), dtype)


Q.tf.random.uniform = fake_uniform
tf.random.uniform = fake_uniform

ROUTES = ["RT_FromConfig", "RT_Lookup", "RT_Keras", "RT_Str"]
P1 = f32(np.outer([0.05, 0.4, 1.3, 5.0], [-1.0, -0.55, -0.1, 0.2, 0.7, 1.0]) + 0.003)
P2 = f32([-3.0, -1.26, -0.5, -0.13, 0.0, 0.07, 0.33, 0.6, 0.9, 1.7, 2.6, 7.3])
MODES = [(0, 0.5), (1, 0.3), (1, 0.8)]


def dec(v):
  if v == "None":
    return None
  t, _, r = v.partition(":")
  return {"i": int, "b": lambda s: s == "1", "s": str, "f": float, "l": lambda s: [int(x) for x in s.split()],
          "a": lambda s: np.array(float(s), dtype=np.float32),
          "v": lambda s: np.array([float(x) for x in s.split()], dtype=np.float32),
          "c": lambda s: np.array([[float(x)] for x in s.split()], dtype=np.float32)}[t](r)     # column: one value per row


def build(c):
  return getattr(Q, c["cls"])(**{k: dec(v) for k, v in c["opts"].items()})


P3 = f32(np.outer([2.5, 0.02, 0.7, 0.11], [0.3, -1.0, 0.9, -0.2, 0.45, -0.6]) - 0.001)


def probe(q):
  ys, ss = [], []
  # a list-valued scale_axis names two axes: both probes have rank 2 then
  vec = isinstance(getattr(q, "alpha", None), (np.ndarray, list)) and np.ndim(q.alpha) >= 1     # per-channel constant scale
  col = np.ndim(getattr(q, "post_training_scale", None)) >= 2                                       # per-row post-training scale
  for x in ((P1, P3) if isinstance(getattr(q, "scale_axis", None), (list, tuple)) or vec or col else (P1, P2)):
    for ph, u in MODES:
      K.set_learning_phase(ph)
      DRAW[0] = u
      try:
        y = q(tf.constant(x))
        y = np.asarray(y.numpy() if hasattr(y, "numpy") else y, dtype=np.float32)
        s = getattr(q, "scale", None)
        if isinstance(s, (tf.Tensor, tf.Variable)):
          s = s.numpy()
        s = np.zeros_like(x) if s is None else np.broadcast_to(np.asarray(s, dtype=np.float32), x.shape)
      finally:
        K.set_learning_phase(0)
      y = np.where(np.isfinite(y), y, np.float32(12345.0))
      s = np.where(np.isfinite(s), s, np.float32(12345.0))
      ys += [dy(v) for v in y.reshape(-1)]
      ss += [dy(v) for v in np.asarray(s).reshape(-1)]
  return ys, ss


def norm_attr(v):
  if isinstance(v, (tf.Variable, tf.Tensor)):
    v = v.numpy()
  if isinstance(v, np.ndarray):
    return v.tolist()
  if isinstance(v, (np.floating, np.integer, np.bool_)):
    return v.item()
  if isinstance(v, tuple):
    return list(v)
  return v


def field_diff(a, b, names):
  out = []
  for n in names:
    va, vb = norm_attr(getattr(a, n, "<missing>")), norm_attr(getattr(b, n, "<missing>"))
    if isinstance(va, bool) or isinstance(vb, bool) or va in (0, 1) and vb in (0, 1):
      same = bool(va) == bool(vb) if not isinstance(va, str) and not isinstance(vb, str) else va == vb
    else:
      same = va == vb
    if not same:
      out.append(n)
  return out


def render(c, style):
  """The configuration as the text of the equivalent Python call (first options positional, rest by keyword)."""
  import inspect
  order = [p for p in inspect.signature(getattr(Q, c["cls"]).__init__).parameters if p in c["opts"]]
  opts = [(k, c["opts"][k]) for k in order]
  npos = 0 if style == 0 else min(2, len(opts))
  parts = []
  for j, (k, v) in enumerate(opts):
    val = dec(v)
    lit = repr(val)
    if j < npos:
      parts.append(lit)
    elif v != DEFAULTS.get(c["cls"], {}).get(k, object()) or style == 2:
      parts.append(k + "=" + lit)
  return c["cls"] + "(" + (", " if style == 2 else ",").join(parts) + ")"


DEFAULTS = {}


def route(q, r):
  if r == "RT_FromConfig":
    return type(q).from_config(q.get_config())
  if r == "RT_Lookup":
    return Q.get_quantizer(tf.keras.utils.serialize_keras_object(q))
  if r == "RT_Keras":
    co = {}
    qutils._add_supported_quantized_objects(co)
    return tf.keras.utils.deserialize_keras_object(tf.keras.utils.serialize_keras_object(q), custom_objects=co)
  if r == "RT_Str":
    route.text = str(q)
    return Q.get_quantizer(route.text)
  if r.startswith("RT_Text"):
    return Q.get_quantizer(route.text)
  if r == "RT_StrMut":
    # history: the same text was parsed before and the object it produced was then changed in place the way library
    # code changes quantizers (a layer's kernel role calls _set_trainable_parameter, the noise scheduler calls
    # update_qnoise_factor, QAdaptiveActivation re-assigns bits) - parsing the text again must give a fresh quantizer
    route.text = str(q)
    first = Q.get_quantizer(route.text)
    for mutate in (lambda: first._set_trainable_parameter(), lambda: first.update_qnoise_factor(0.25),
                   lambda: setattr(first, "bits", first.bits + 1)):
      try:
        mutate()                    # whichever of these the class supports
      except Exception:
        pass
    return Q.get_quantizer(route.text)
  raise ValueError(r)


def main():
  cfgs_path, prefix, tier, seed, shard, nshards = sys.argv[1:7]
  seed, shard, nshards = int(seed), int(shard), int(nshards)
  cfgs = json.load(open(cfgs_path))
  mine = [(j, c) for j, c in enumerate(cfgs) if j % nshards == shard]
  rnd = random.Random(seed * 1000 + shard)
  events, meta = [], []
  t = shard * 1000000
  if shard == 0:
    for name in sorted(quantizer_registry._QUANTIZERS_REGISTRY._container if hasattr(quantizer_registry, "_QUANTIZERS_REGISTRY") else []):
      got = quantizer_registry.lookup_quantizer(name)
      events.append({"t": t, "a": "Registry", "name": name, "got": getattr(got, "__name__", str(got))})
  pairs = list(itertools.product(ROUTES, ROUTES))
  for j, c in mine:
    # second-generation exports (a rebuilt object is exported again) are always part of the history set
    seqs = [[r] for r in ROUTES] + [list(p) for p in (pairs if tier == "thorough" else
                                                      [("RT_FromConfig", "RT_FromConfig"), ("RT_Lookup", "RT_Keras"),
                                                       ("RT_Keras", "RT_FromConfig")] + rnd.sample(pairs, 1))]
    if len(sys.argv) > 7 and sys.argv[7] == "text":
      seqs = [["RT_Str"], ["RT_Text0"], ["RT_Text1"], ["RT_Text2"], ["RT_Str", "RT_Str"], ["cold", "RT_Str"], ["RT_StrMut"]]
      if any(str(v).startswith(("a:", "v:", "c:")) for v in c["opts"].values()):
        seqs = [s_ for s_ in seqs if not s_[0].startswith("RT_Text")]   # an ndarray argument has no text in the literal grammar
    else:
      # cold histories: the route is taken on an object that was never called (not built); the reference function
      # is observed on an identically constructed twin
      seqs += [["cold", r] for r in ROUTES[:3]]
    for seq in seqs:
      if seq[0].startswith("RT_Text"):
        route.text = render(c, int(seq[0][-1]))
      t += 1
      info = {"t": t, "cfg": j, "seq": seq, "steps": []}
      cold = seq[0] == "cold"
      if cold:
        seq = seq[1:]
        info["seq"] = ["cold"] + seq
      try:
        q0 = build(c)
        q = q0
        ys, ss = probe(build(c) if cold else q)
      except Exception as e:
        info["construct_exc"] = repr(e)[:300]
        meta.append(info)
        continue
      events.append({"t": t, "a": "New"})
      events.append({"t": t, "a": "Probe", "after": "New", "y": ys, "s": ss})
      for r in seq:
        try:
          q = route(q, r)
          exc = None
        except Exception as e:
          exc = repr(e)[:300]
        events.append({"t": t, "a": r, "exc": int(exc is not None)})
        if exc is not None:
          info["steps"].append({"route": r, "exc": exc, "text": getattr(route, "text", None)})
          break
        try:
          ys, ss = probe(q)
        except Exception as e:
          events[-1]["exc"] = 1
          info["steps"].append({"route": r, "exc": "call after route: " + repr(e)[:300]})
          break
        info["steps"].append({"route": r, "diff": field_diff(q0, q, list(c["opts"].keys())),
                              "text": getattr(route, "text", None) if r.startswith("RT_Text") or r == "RT_Str" else None})
        events.append({"t": t, "a": "Probe", "after": r, "y": ys, "s": ss})
      meta.append(info)
  write_ndjson("%s.%d.ndjson" % (prefix, shard), events)
  json.dump(meta, open("%s.%d.meta.json" % (prefix, shard), "w"))
  print(json.dumps({"events": len(events), "traces": len(meta)}))


if __name__ == "__main__":
  main()
