"""Driver for C19: operation counts and energy reports of the real QTools on generated models.

usage: drive_qops.py <unused> <out_prefix> <tier> <seed> <shard> <nshards>
"""
import itertools
import json
import random
import sys
import numpy as np
from qk import tf, Q, qkeras
from qkeras import (QDense, QConv2D, QConv1D, QDepthwiseConv2D, QActivation, QAveragePooling2D,
                    QGlobalAveragePooling2D)
from qkeras.qtools import run_qtools
from qkeras.qtools.settings import cfg
from qkeras.qtools import qtools_util
from qkeras import estimate
from common import write_ndjson

L = tf.keras.layers
QB = "quantized_bits(4,0,1)"


def geom(cls, h=1, w=1, cin=1, cout=1, kh=1, kw=1, sh=1, sw=1, dh=1, dw=1, pad="valid", dm=1, units=1):
  return {"cls": cls, "h": h, "w": w, "cin": cin, "cout": cout, "kh": kh, "kw": kw, "sh": sh, "sw": sw, "dh": dh,
          "dw": dw, "pad": pad, "dm": dm, "units": units}


def build(g):
  c = g["cls"]
  if c in ("QDense", "Dense"):
    i = L.Input((g["cin"],))
    lay = QDense(g["units"], kernel_quantizer=QB, bias_quantizer=QB) if c == "QDense" else L.Dense(g["units"])
    return tf.keras.Model(i, lay(i)), lay
  if c in ("QConv1D", "Conv1D"):
    i = L.Input((g["w"], g["cin"]))
    kw = dict(filters=g["cout"], kernel_size=g["kw"], strides=g["sw"], padding=g["pad"], dilation_rate=g["dw"])
    lay = QConv1D(kernel_quantizer=QB, bias_quantizer=QB, **kw) if c == "QConv1D" else L.Conv1D(**kw)
    return tf.keras.Model(i, lay(i)), lay
  i = L.Input((g["h"], g["w"], g["cin"]))
  if c in ("QConv2D", "Conv2D"):
    kw = dict(filters=g["cout"], kernel_size=(g["kh"], g["kw"]), strides=(g["sh"], g["sw"]), padding=g["pad"],
              dilation_rate=(g["dh"], g["dw"]))
    lay = QConv2D(kernel_quantizer=QB, bias_quantizer=QB, **kw) if c == "QConv2D" else L.Conv2D(**kw)
  elif c in ("QDepthwiseConv2D", "DepthwiseConv2D"):
    kw = dict(kernel_size=(g["kh"], g["kw"]), strides=(g["sh"], g["sw"]), padding=g["pad"], depth_multiplier=g["dm"])
    lay = QDepthwiseConv2D(depthwise_quantizer=QB, bias_quantizer=QB, **kw) if c[0] == "Q" else L.DepthwiseConv2D(**kw)
  elif c in ("AveragePooling2D", "QAveragePooling2D"):
    kw = dict(pool_size=(g["kh"], g["kw"]), strides=(g["sh"], g["sw"]), padding=g["pad"])
    lay = QAveragePooling2D(average_quantizer=QB, **kw) if c[0] == "Q" else L.AveragePooling2D(**kw)
  elif c in ("GlobalAveragePooling2D", "QGlobalAveragePooling2D"):
    lay = QGlobalAveragePooling2D(average_quantizer=QB) if c[0] == "Q" else L.GlobalAveragePooling2D()
  elif c in ("Add", "Subtract", "Multiply", "Maximum", "Average"):
    lay = getattr(L, c)()
    lay._name = "lut"
    a = QActivation(QB)(i)
    if g.get("bc"):      # a broadcast operand (squeeze-and-excite style gate of shape 1x1xC), first or second
      b = QActivation("quantized_bits(6,1,1)")(L.Lambda(lambda t: t[:, :1, :1, :])(i))
      return tf.keras.Model(i, lay([b, a] if g["bc"] == 2 else [a, b])), lay
    b = QActivation("quantized_bits(6,1,1)")(i)
    return tf.keras.Model(i, lay([a, b])), lay
  else:
    raise ValueError(c)
  lay._name = "lut"          # every model names its layer under test alike: a count must not be remembered by name
  return tf.keras.Model(i, lay(i)), lay


def qtools_of(model):
  return run_qtools.QTools(model, process="horowitz", source_quantizers=[Q.quantized_bits(8, 0, 1)], is_inference=False,
                           weights_path=None, keras_quantizer="fp32", keras_accumulator="fp32", for_reference=False)


def count_geometries(rnd, tier):
  gs = []
  ks, ss = (1, 2, 3, 5), (1, 2, 3)
  sizes = (4, 7, 12) if tier == "thorough" else (4, 7)
  for cls in ("QConv2D", "Conv2D"):
    for h, k, s, pad in itertools.product(sizes, ks, ss, ("valid", "same")):
      if k > h:
        continue
      w = rnd.choice(sizes)
      kw_ = rnd.choice([kk for kk in ks if kk <= w])
      gs.append(geom(cls, h=h, w=w, cin=rnd.choice([1, 3, 8]), cout=rnd.choice([1, 4]), kh=k, kw=kw_, sh=s, sw=s, pad=pad))
    for h, k, d, pad in itertools.product(sizes, (2, 3), (2,), ("valid", "same")):
      if k + (k - 1) * (d - 1) > h:
        continue
      gs.append(geom(cls, h=h, w=h, cin=rnd.choice([1, 3]), cout=rnd.choice([2, 4]), kh=k, kw=k, dh=d, dw=d, pad=pad))
  for cls in ("QConv1D", "Conv1D"):
    for w, k, s, pad in itertools.product(sizes + (9,), ks, ss, ("valid", "same", "causal")):
      if k > w or (pad == "causal" and cls == "QConv1D" and False):
        continue
      gs.append(geom(cls, w=w, cin=rnd.choice([1, 3, 8]), cout=rnd.choice([1, 4]), kw=k, sw=s, pad=pad))
  for cls in ("QDepthwiseConv2D", "DepthwiseConv2D"):
    for h, k, s, pad, dm in itertools.product(sizes, (1, 2, 3), (1, 2), ("valid", "same"), (1, 2)):
      if k > h or (cls == "QDepthwiseConv2D" and dm != 1):     # documented contract: QDepthwiseConv2D asserts dm == 1
        continue
      gs.append(geom(cls, h=h, w=h, cin=rnd.choice([1, 3]), kh=k, kw=k, sh=s, sw=s, pad=pad, dm=dm))
  for cls in ("QDense", "Dense"):
    for cin, units in itertools.product((1, 3, 8, 17), (1, 4, 10)):
      gs.append(geom(cls, cin=cin, units=units))
  for cls in ("AveragePooling2D", "QAveragePooling2D"):
    for h, k, s, pad in itertools.product(sizes, (2, 3), (1, 2, 3), ("valid", "same")):
      gs.append(geom(cls, h=h, w=h, cin=rnd.choice([1, 3]), kh=k, kw=rnd.choice([2, 3]), sh=s, sw=s, pad=pad))
  for cls in ("GlobalAveragePooling2D", "QGlobalAveragePooling2D"):
    for h in sizes:
      gs.append(geom(cls, h=h, w=rnd.choice(sizes), cin=rnd.choice([1, 3, 8])))
  for cls in ("Add", "Subtract", "Multiply", "Maximum"):
    for h in sizes:
      gs.append(geom(cls, h=h, w=rnd.choice(sizes), cin=rnd.choice([1, 3])))
  for cls in ("Add", "Multiply"):
    for h in sizes:
      for bc in (1, 2):
        gs.append(dict(geom(cls, h=max(h, 2), w=rnd.choice(sizes), cin=rnd.choice([2, 3])), bc=bc))
  return gs


# ---- documented energy functions re-evaluated from the reported types, counts and sizes -----------------------------
def op(kind, mode, x):
  table = {"fp32": {"add": cfg.fp32_add, "mul": cfg.fp32_mul}, "fp16": {"add": cfg.fp16_add, "mul": cfg.fp16_mul}}
  if kind in table:
    return max(float(table[kind][mode](x)), 0.0)
  f = cfg.fpm_mul if mode == "mul" else cfg.fpm_add
  return max(float(f(x)), 0.0)


def op_type(q):
  return "fp" + str(q.bits) if q.is_floating_point else "fpm"


def sram(x):
  return max(float(cfg.sram_rd(x)), 0.0)


def dram(x):
  return max(float(cfg.dram_rd(x)), 0.0)


def mem_read(is_input, elems, mode, min_sram, io, bits):
  if is_input:
    mode = "dram" if io else "sram"
  total = elems * bits
  lg = np.log2(max(total, min_sram))
  e = 0.0
  if mode == "dram":
    e += dram(total)
    if io:
      e += np.ceil(total * cfg.sram_mul_factor) * sram(lg)
  elif mode == "sram":
    e += np.ceil(total * cfg.sram_mul_factor) * sram(lg)
  return e


def mem_write(is_output, elems, mode, min_sram, io, bits):
  if is_output:
    mode = "dram" if io else "sram"
  total = elems * bits
  lg = np.log2(max(total, min_sram))
  e = 0.0
  if mode == "dram":
    if io:
      e += np.ceil(total * cfg.sram_mul_factor) * sram(lg)
    e += dram(total)
  elif mode == "sram":
    e += np.ceil(total * cfg.sram_mul_factor) * sram(lg)
  return e


def reference_energy(q, model, wmem, amem, min_sram, io):
  lm = q._layer_map
  dmap = lm["layer_data_type_map"]
  out = {}
  for layer in model.layers:
    if layer not in dmap:
      continue
    item = dmap[layer]
    get = lambda k: qtools_util.get_val(item, k)
    cls = layer.__class__.__name__
    in_shapes = layer.input_shape if isinstance(layer.input_shape, list) else [layer.input_shape]
    e_in = sum(mem_read(layer in lm["input_layers"], int(np.prod(s[1:])), amem, min_sram, io, iq.bits)
               for s, iq in zip(in_shapes, get("input_quantizer_list")))
    e_par = 0.0
    if cls in ("QBatchNormalization", "BatchNormalization"):
      pass
    elif get("weight_quantizer") is not None and cls not in ("QActivation", "Activation"):
      e_par += mem_read(False, int(np.prod(get("w_shapes"))), wmem, min_sram, io, get("weight_quantizer").bits)
      if get("bias_quantizer"):
        e_par += mem_read(False, int(np.prod(get("b_shapes"))), wmem, min_sram, io, get("bias_quantizer").bits)
    e_out = mem_write(layer in lm["output_layers"], int(np.prod(get("output_shapes")[1:])), amem, min_sram, io,
                      get("output_quantizer").bits)
    n = get("operation_count")
    e_op = 0.0
    if cls in ("Add", "Multiply", "Subtract"):
      m = get("multiplier")
      e_op = (len(get("input_quantizer_list")) - 1) * n * m.gate_factor * op(op_type(m.output), m.implemented_as(), m.gate_bits)
    elif cls in ("AveragePooling2D", "AvgPool2D", "GlobalAvgPool2D", "GlobalAveragePooling2D"):
      acc = get("pool_sum_accumulator")
      e_op = n * op(op_type(acc.output), "add", acc.output.bits)
    elif cls in ("QConv2D", "QConv1D", "QDepthwiseConv2D", "QDense", "Conv2D", "Conv1D", "DepthwiseConv2D", "Dense"):
      m, acc = get("multiplier"), get("accumulator")
      e_op = n * (m.gate_factor * op(op_type(m.output), m.implemented_as(), m.gate_bits)
                  + op(op_type(acc.output), "add", acc.output.bits))
    out[layer.name] = [e_in, e_out, e_par, e_op]
  return out


def energy_models(rnd):
  ms = []
  i = L.Input((8, 8, 3))
  x = QActivation("quantized_relu(6,2)")(i)
  x = QConv2D(4, 3, strides=2, padding="same", kernel_quantizer=QB, bias_quantizer=QB, name="c1")(x)
  x = QActivation("quantized_relu(4,1)", name="a1")(x)
  y = QConv2D(4, 1, kernel_quantizer="quantized_po2(4)", bias_quantizer=QB, name="c2")(x)
  z = L.Add(name="add")([x, y])
  z = L.AveragePooling2D(2, name="pool")(z)
  z = L.DepthwiseConv2D((2, 2), name="plain_dw")(z)            # non-quantized MAC layers have an op cost too
  z = L.Flatten()(z)
  z = QDense(5, kernel_quantizer="ternary()", bias_quantizer=QB, name="d1")(z)
  ms.append(tf.keras.Model(i, z))
  i = L.Input((10,))
  x = QDense(7, kernel_quantizer="binary()", bias_quantizer="quantized_bits(8,3,1)", name="d0")(i)
  x = QActivation("quantized_relu(3,0)", name="r")(x)
  x = QDense(3, kernel_quantizer=QB, use_bias=False, name="d2")(x)
  ms.append(tf.keras.Model(i, x))
  i = L.Input((9, 2))
  x = L.Conv1D(3, 2, name="plain_c1")(i)
  x = QConv1D(3, 3, kernel_quantizer=QB, bias_quantizer=QB, name="q1")(x)
  x = L.GlobalAveragePooling1D()(x) if False else L.Flatten()(x)
  x = L.Dense(4, name="plain")(x)
  ms.append(tf.keras.Model(i, x))
  return ms


def main():
  _, prefix, tier, seed, shard, nshards = sys.argv[1:7]
  seed, shard, nshards = int(seed), int(shard), int(nshards)
  rnd = random.Random(seed)
  events, errors = [], []
  gs = count_geometries(rnd, tier)
  for j, g in enumerate(gs):
    if j % nshards != shard:
      continue
    try:
      model, lay = build(g)
      q = qtools_of(model)
      rep = q._output_dict[lay.name]["operation_count"]
      gg = dict(g)
      if gg["pad"] == "causal":
        gg["pad"] = "same"            # causal = left-padded: same number of output positions as 'same'
      events.append({"k": "count", "g": gg, "reported": int(rep), "layer": lay.name, "via": "qtools"})
      if lay.__class__.__name__ in ("QDense", "QConv2D", "QConv1D", "QDepthwiseConv2D"):
        # the second operation counter of the library (estimate.extract_model_operations, used by print_qstats)
        ops = estimate.extract_model_operations(model)
        events.append({"k": "count", "g": gg, "reported": int(ops[lay.name]["number_of_operations"]), "layer": lay.name,
                       "via": "estimate"})
    except Exception as e:
      errors.append({"k": "exc", "g": g, "exc": repr(e)[:300]})
  # quantizer choices: the count of a layer does not depend on what quantizes its input and its kernel, and both
  # counters have to report it for every quantizer they support (an explicit refusal of an unsupported quantizer is the
  # documented contract; any other exception is the library failing to report)
  AQS = ["quantized_bits(4,1,1)", "quantized_bits(2,1,1)", "quantized_relu(4,1)", "quantized_relu(1,1)", "quantized_tanh(4)",
         "quantized_tanh(2)", "quantized_ulaw(4,1)", "quantized_ulaw(2,1)", "binary()", "binary(use_01=True)", "ternary()",
         "stochastic_binary()", "stochastic_ternary()", "bernoulli()", "quantized_po2(4)", "quantized_relu_po2(4)",
         "quantized_sigmoid(4)", "quantized_hswish(4,1)", "quantized_linear(4,1)"]
  KQS = [QB, "binary()", "ternary()", "quantized_po2(4)", "quantized_bits(2,1,1)", "stochastic_ternary()",
         "stochastic_binary()", "quantized_relu(1,1)", "quantized_bits(8,2,1,alpha=1.0)"]
  pairs = [(a, QB) for a in AQS] + [("quantized_bits(4,1,1)", k) for k in KQS] + \
          [(rnd.choice(AQS[:16]), rnd.choice(KQS)) for _ in range(16 if tier == "quick" else 80)]
  for j, (aq, kq) in enumerate(pairs):
    if j % nshards != shard:
      continue
    for cls in ("QDense", "QConv2D"):
      g = geom(cls, cin=rnd.choice([3, 5]), units=rnd.choice([2, 3])) if cls == "QDense" else \
          geom(cls, h=5, w=4, cin=2, cout=3, kh=2, kw=rnd.choice([1, 3]), sh=1, sw=1, pad=rnd.choice(["valid", "same"]))
      for via in ("estimate", "qtools"):
        try:
          i = L.Input((g["cin"],)) if cls == "QDense" else L.Input((g["h"], g["w"], g["cin"]))
          x = QActivation(aq, name="act")(i)
          lay = QDense(g["units"], kernel_quantizer=kq, bias_quantizer=QB, name="lut") if cls == "QDense" else \
              QConv2D(g["cout"], (g["kh"], g["kw"]), padding=g["pad"], kernel_quantizer=kq, bias_quantizer=QB, name="lut")
          model = tf.keras.Model(i, lay(x))
          if via == "estimate":
            rep = estimate.extract_model_operations(model)["lut"]["number_of_operations"]
          else:
            rep = qtools_of(model)._output_dict["lut"]["operation_count"]
          events.append({"k": "count", "g": g, "reported": int(rep), "layer": "lut", "via": via, "aq": aq, "kq": kq})
        except Exception as e:
          refused = (isinstance(e, ValueError) and "Not Found" in str(e)) or e.__class__.__name__ == "TagMissingError" \
              or (isinstance(e, KeyError) and "quantizers." in str(e))
          if not refused:
            errors.append({"k": "exc", "g": dict(g, aq=aq, kq=kq, via=via), "exc": repr(e)[:300]})
  # energy reports
  combos = list(itertools.product(("dram", "sram", "fixed"), ("dram", "sram"), (0, 4096), (True, False)))
  sels = [dict(cfg.include_energy), {"default": ["inputs", "outputs", "parameters", "op_cost"]},
          {"default": ["op_cost"], "QDense": ["parameters", "inputs"], "QActivation": []},
          # an explicitly empty selection for a class is a selection, not a missing key
          {"default": ["inputs", "outputs", "parameters", "op_cost"], "QConv2D": [], "QDense": [], "QActivation": []}]
  for mi, model in enumerate(energy_models(rnd)):
    if mi % nshards != shard % 3 or shard >= 3 * (nshards // 3):
      continue
    try:
      q = qtools_of(model)
    except Exception as e:
      errors.append({"k": "exc", "g": {"cls": "model%d" % mi}, "exc": repr(e)[:300]})
      continue
    mine = [c for j, c in enumerate(combos) if j % (nshards // 3) == shard // 3]
    for (wmem, amem, ms, io) in mine:
      try:
        ed = q.pe(weights_on_memory=wmem, activations_on_memory=amem, min_sram_size=ms, rd_wr_on_io=io)
        ref = reference_energy(q, model, wmem, amem, ms, io)
        names = [k for k in ed if k != "total_cost"]
        layers = []
        for nme in names:
          e = ed[nme]["energy"]
          layers.append({"name": nme, "cls": ed[nme]["class_name"],
                         "e100": [int(round(e[k] * 100)) for k in ("inputs", "outputs", "parameters", "op_cost")],
                         "ref100": [int(round(float("{0:.2f}".format(v)) * 100)) for v in ref[nme]]})
        for sel in sels:
          keys = [sel.get(l["cls"], sel.get("default", [])) for l in layers]
          prof = q.extract_energy_profile(sel, ed)
          events.append({"k": "energy", "model": mi, "setting": [wmem, amem, ms, int(io)], "layers": layers,
                         "total": int(ed["total_cost"]), "sel": keys, "extracted": int(q.extract_energy_sum(sel, ed)),
                         "profile100": [int(round(prof[nme]["total"] * 100)) for nme in names]})
      except Exception as e:
        errors.append({"k": "exc", "g": {"cls": "model%d" % mi, "setting": [wmem, amem, ms, io]}, "exc": repr(e)[:300]})
  write_ndjson("%s.%d.ndjson" % (prefix, shard), events)
  json.dump(errors, open("%s.%d.err.json" % (prefix, shard), "w"))
  print(json.dumps({"events": len(events), "errors": len(errors)}))


if __name__ == "__main__":
  main()
