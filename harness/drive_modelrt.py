"""Driver for C13: json / clone / h5 round trips of real quantized models.

usage: drive_modelrt.py <lattice.json> <out_prefix> <tier> <seed> <shard> <nshards>
"""
import itertools
import json
import os
import random
import sys
import tempfile
import numpy as np
from qk import tf, Q
from qkeras import utils as qutils
from common import dy, write_ndjson
import qmodels

ROUTES = ["RT_Json", "RT_Clone", "RT_H5"]


def route(m, r, tmp):
  if r == "RT_Json":
    m2 = qutils.quantized_model_from_json(m.to_json())
    m2.set_weights(m.get_weights())
    return m2
  if r == "RT_Clone":
    return qutils.clone_model(m)
  if r == "RT_H5":
    p = os.path.join(tmp, "m.h5")
    m.save(p)
    return qutils.load_qmodel(p, compile=False)
  if r == "RT_H5User":
    # the caller passes custom objects of their own: the library's classes still need no entry
    p = os.path.join(tmp, "mu.h5")
    m.save(p)
    return qutils.load_qmodel(p, custom_objects={"UserThing": UserThing}, compile=False)
  raise ValueError(r)


class UserThing(tf.keras.layers.Layer):
  """A user-defined class that the models do not even use."""


def probe(m, x):
  # an eager call: the same function as predict() without tracing a graph for every rebuilt model
  y = np.asarray(m(tf.constant(x), training=False))
  y = np.where(np.isfinite(y), y, np.float32(12345.0))
  return [dy(v) for v in np.asarray(y, dtype=np.float32).reshape(-1)], qmodels.quantizer_configs(m)


def main():
  lat_path, prefix, tier, seed, shard, nshards = sys.argv[1:7]
  seed, shard, nshards = int(seed), int(shard), int(nshards)
  lat = json.load(open(lat_path))
  cases = [(c, v) for c in lat["classes"] for v in lat["variants"]]
  rnd = random.Random(seed * 1000 + shard)
  events, meta = [], []
  t = shard * 1000000
  tmp = tempfile.mkdtemp(prefix="modelrt_")
  pairs = list(itertools.product(ROUTES, ROUTES))
  for j, (cls, variant) in enumerate(cases):
    if j % nshards != shard:
      continue
    seqs = [[r] for r in ROUTES] + [list(p) for p in (pairs if tier == "thorough" else rnd.sample(pairs, 2))]
    # histories: a frozen layer (trainable=False) must survive the routes as well
    seqs.append(["frozen", rnd.choice(ROUTES)])
    if j % 3 == shard % 3:
      seqs.append(["RT_H5User"])
    for seq in seqs:
      t += 1
      frozen = seq[0] == "frozen"
      info = {"t": t, "cls": cls, "variant": variant, "seq": list(seq), "steps": []}
      if frozen:
        seq = seq[1:]
      try:
        m, x = qmodels.build(cls, variant)
        if frozen:
          for lay in m.layers:
            if lay.get_weights():
              lay.trainable = False
        if cls == "QAdaptiveActivation":
          # history: the layer has been trained for a few steps (its running statistics moved) and used once at inference
          for k in range(3):
            m(tf.constant(x * (k + 1.5)), training=True)
          m(tf.constant(x), training=False)
          info["trained"] = True
        y, q = probe(m, x)
      except Exception as e:
        info["construct_exc"] = repr(e)[:300]
        meta.append(info)
        continue
      events.append({"t": t, "a": "New"})
      events.append({"t": t, "a": "Probe", "after": "New", "y": y, "q": q})
      for r in seq:
        try:
          m = route(m, r, tmp)
          exc = None
        except Exception as e:
          exc = repr(e)[:300]
        events.append({"t": t, "a": r, "exc": int(exc is not None)})
        if exc is not None:
          info["steps"].append({"route": r, "exc": exc})
          break
        try:
          y2, q2 = probe(m, x)
        except Exception as e:
          events[-1]["exc"] = 1
          info["steps"].append({"route": r, "exc": "predict after route: " + repr(e)[:300]})
          break
        info["steps"].append({"route": r, "qdiff": [a for a, b in zip(q, q2) if a != b][:3]})
        events.append({"t": t, "a": "Probe", "after": r, "y": y2, "q": q2})
      meta.append(info)
  write_ndjson("%s.%d.ndjson" % (prefix, shard), events)
  json.dump(meta, open("%s.%d.meta.json" % (prefix, shard), "w"))
  import shutil
  shutil.rmtree(tmp, ignore_errors=True)
  print(json.dumps({"events": len(events), "traces": len(meta)}))


if __name__ == "__main__":
  main()
