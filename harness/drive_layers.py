"""Driver for C11: real quantized layers with recording proxy quantizers on integer-coded dyadic data.

usage: drive_layers.py <unused> <out_prefix> <tier> <seed> <shard> <nshards>
"""
import itertools
import json
import random
import sys
import numpy as np
from qk import tf, Q, qkeras
from qkeras import (QDense, QConv1D, QConv2D, QDepthwiseConv2D, QSeparableConv1D, QSeparableConv2D,
                    QAveragePooling2D, QGlobalAveragePooling2D, QSimpleRNN, QLSTM, QGRU)
from common import write_ndjson

L = tf.keras.layers


class Proxy:
  """A quantizer that records every application (role, input, output). Layers accept any callable."""

  def __init__(self, inner, role, log):
    self.__dict__["inner"], self.__dict__["role"], self.__dict__["log"] = inner, role, log

  def __call__(self, x):
    y = self.inner(x)
    try:
      self.log.append((self.role, np.asarray(x), np.asarray(y)))
    except Exception:
      self.log.append((self.role, None, None))
    return y

  def __getattr__(self, name):
    return getattr(self.__dict__["inner"], name)

  def __setattr__(self, name, value):
    setattr(self.__dict__["inner"], name, value)


def ints(a, scale_exp):
  v = np.asarray(a, dtype=np.float64) * 2.0 ** (-scale_exp)
  r = np.rint(v)
  if not np.allclose(v, r, atol=1e-9):
    raise ValueError("not on the integer grid")
  return r.astype(np.int64).tolist()


KQ = lambda: Q.quantized_bits(4, 0, 1, alpha=1.0)          # grid 2^-3
BQ = lambda: Q.quantized_bits(6, 2, 1, alpha=1.0)          # grid 2^-3
AQ = lambda: Q.quantized_relu(6, 2)                        # grid 2^-4
SX = -2                                                    # inputs on 2^-2


def stock_for(cls, kw):
  m = {"QDense": L.Dense, "QConv1D": L.Conv1D, "QConv2D": L.Conv2D, "QDepthwiseConv2D": L.DepthwiseConv2D,
       "QSeparableConv1D": L.SeparableConv1D, "QSeparableConv2D": L.SeparableConv2D}
  return m[cls](**kw)


def conv_case(rnd, cls, with_q=True):
  log = []
  one_d = cls in ("QConv1D", "QSeparableConv1D")
  pad_choices = ["valid", "same"] + (["causal"] if cls in ("QConv1D", "QSeparableConv1D") else [])
  pad = rnd.choice(pad_choices)
  s = rnd.choice([1, 1, 2])
  d = rnd.choice([1, 2]) if s == 1 else 1          # (every convolution class takes a dilation rate)
  kh, kw_ = (1, rnd.choice([1, 2, 3])) if one_d else (rnd.choice([1, 2]), rnd.choice([1, 2, 3]))
  h, w = (1, rnd.choice([4, 5, 6])) if one_d else (rnd.choice([3, 4]), rnd.choice([3, 4, 5]))
  if pad == "valid":      # the dilated kernel must fit
    h = max(h, kh + (kh - 1) * (d - 1))
    w = max(w, kw_ + (kw_ - 1) * (d - 1))
  cin, cout = rnd.choice([1, 2]), rnd.choice([1, 2, 3])
  groups = 1
  if cls in ("QConv1D", "QConv2D") and rnd.random() < 0.25:    # grouped convolution (Keras `groups`)
    groups = 2
    cin, cout = rnd.choice([2, 4]), rnd.choice([2, 4])
  dm = rnd.choice([1, 2]) if cls == "QSeparableConv2D" else 1
  usebias = rnd.random() < 0.6
  hasact = with_q and rnd.random() < 0.6
  common = dict(strides=s if one_d else (s, s), padding=pad, use_bias=usebias)
  # channels_first: the same geometry with the channel axis in front (events stay in channels-last layout)
  cf = pad != "causal" and rnd.random() < 0.3
  if cf:
    common["data_format"] = "channels_first"
  to_cf = (lambda a: np.moveaxis(np.asarray(a), -1, 1)) if cf else (lambda a: np.asarray(a))
  to_cl = (lambda a: np.moveaxis(np.asarray(a), 1, -1)) if cf else (lambda a: np.asarray(a))
  common["dilation_rate"] = d if one_d else (d, d)
  if cls in ("QConv1D", "QConv2D"):
    if groups > 1:
      common["groups"] = groups
  if cls in ("QConv1D", "QConv2D"):
    common.update(filters=cout, kernel_size=kw_ if one_d else (kh, kw_))
  elif cls == "QDepthwiseConv2D":
    common.update(kernel_size=(kh, kw_))
  else:
    common.update(filters=cout, kernel_size=kw_ if one_d else (kh, kw_), depth_multiplier=dm)
  qkw = {}
  if with_q:
    if cls in ("QConv1D", "QConv2D"):
      qkw["kernel_quantizer"] = Proxy(KQ(), "kernel", log)
    elif cls == "QDepthwiseConv2D":
      qkw["depthwise_quantizer"] = Proxy(KQ(), "depthwise", log)
    else:
      qkw["depthwise_quantizer"] = Proxy(KQ(), "depthwise", log)
      qkw["pointwise_quantizer"] = Proxy(KQ(), "pointwise", log)
    if usebias:
      qkw["bias_quantizer"] = Proxy(BQ(), "bias", log)
    if hasact:
      qkw["activation"] = Proxy(AQ(), "activation", log)
  lay = getattr(qkeras, cls)(**common, **qkw)
  shape = (w, cin) if one_d else (h, w, cin)
  x = np.array([rnd.randint(-6, 6) for _ in range(int(np.prod(shape)))], dtype=np.float32).reshape((1,) + shape) * 2.0 ** SX
  bshape = ((shape[-1],) + shape[:-1]) if cf else shape
  lay.build((None,) + bshape)
  ws = [np.random.RandomState(rnd.randint(0, 10 ** 6)).uniform(-1.2, 1.2, v.shape).astype(np.float32) for v in lay.get_weights()]
  if usebias:
    ws[-1] = np.random.RandomState(rnd.randint(0, 10 ** 6)).uniform(-3, 3, ws[-1].shape).astype(np.float32)
  if groups > 1 and not with_q:
    # the stock layer runs grouped convolutions through a jit-compiled op (another summation order): the comparison
    # without quantizers is bit-exact only when every partial sum is exact, so these weights live on the 2^-3 grid
    ws = [np.round(w * 8.0).astype(np.float32) / np.float32(8.0) for w in ws]
  lay.set_weights(ws)
  del log[:]
  xin = tf.constant(to_cf(x))
  y = to_cl(lay(xin).numpy())
  applied = [r for r, _, _ in log]
  rec = {r: (a, b) for r, a, b in log}
  g = {"sh": 1 if one_d else s, "sw": s, "dh": 1 if one_d else d, "dw": d, "pad": pad}
  ev = {"kind": "layer", "cls": cls, "g": g, "usebias": int(usebias), "hasact": int(hasact), "ph": 1, "pw": 1, "qm": 1,
        "applied": applied, "dm": dm, "cf": int(cf), "groups": groups}
  if not with_q:
    st = stock_for(cls, common)
    st.build((None,) + bshape)
    # (QSeparableConv1D keeps its depthwise kernel 4-D: same elements, one more unit axis)
    same_shapes = [int(np.prod(v.shape)) for v in st.get_weights()] == [int(np.prod(v.shape)) for v in ws]
    if same_shapes:
      st.set_weights([np.reshape(a, b.shape) for a, b in zip(ws, st.get_weights())])
    ev.update({"kind": "plain", "stock": int(same_shapes and np.array_equal(to_cl(st(xin).numpy()), y))})
    return ev
  names = ["kernel", "depthwise", "pointwise", "bias"]
  ev["reported"] = [names_for(lay)[j] for j, q in enumerate(lay.get_quantizers()) if q is not None]
  # stock layer with the recorded quantized weights, then the recorded activation quantizer
  qws = []
  for r in ("kernel", "depthwise", "pointwise", "bias"):
    if r in rec:
      qws.append(rec[r][1])
  st = stock_for(cls, common)
  st.build((None,) + bshape)
  if [int(np.prod(np.shape(a))) for a in qws] == [int(np.prod(b.shape)) for b in st.get_weights()]:
    st.set_weights([np.reshape(a, b.shape) for a, b in zip(qws, st.get_weights())])
    ys = st(xin)
    if hasact:
      ys = AQ()(ys)
    ev["stock"] = int(np.array_equal(to_cl(ys), y))
  else:
    ev["stock"] = 0
  two = cls.startswith("QSeparable")
  kexp = -3
  pre_exp = SX + kexp + (kexp if two else 0)
  x3 = x[0] if not one_d else x[0][None, ...]
  ev["x"] = ints(x3, SX)
  first = "kernel" if "kernel" in rec else "depthwise"
  k = rec[first][1]
  up4 = lambda a: np.asarray(a) if np.asarray(a).ndim == 4 else np.asarray(a)[None, ...]
  ev["qk"] = ints(up4(k), kexp)
  if two:
    k2 = rec["pointwise"][1]
    ev["qk2"] = ints(up4(k2), kexp)
  else:
    ev["qk2"] = [[[[0]]]]
  ev["qb"] = ints(rec["bias"][1], pre_exp) if usebias else [0]
  pre = to_cl(rec["activation"][0])[0] if hasact else y[0]
  ev["pre"] = ints(pre if not one_d else np.asarray(pre)[None, ...], pre_exp)
  return ev


def names_for(lay):
  n = lay.__class__.__name__
  if n.startswith("QSeparable"):
    return ["depthwise", "pointwise", "bias"]
  if n == "QDepthwiseConv2D":
    return ["depthwise", "bias"]
  if n in ("QAveragePooling2D", "QGlobalAveragePooling2D"):
    return ["average"]
  return ["kernel", "bias"]


def dense_case(rnd, with_q=True):
  log = []
  n, m = rnd.choice([1, 3, 5]), rnd.choice([1, 2, 4])
  usebias = rnd.random() < 0.6
  hasact = with_q and rnd.random() < 0.6
  qkw = {}
  if with_q:
    qkw["kernel_quantizer"] = Proxy(KQ(), "kernel", log)
    if usebias:
      qkw["bias_quantizer"] = Proxy(BQ(), "bias", log)
    if hasact:
      qkw["activation"] = Proxy(AQ(), "activation", log)
  lay = QDense(m, use_bias=usebias, **qkw)
  lay.build((None, n))
  ws = [np.random.RandomState(rnd.randint(0, 10 ** 6)).uniform(-1.2, 1.2, v.shape).astype(np.float32) for v in lay.get_weights()]
  lay.set_weights(ws)
  x = np.array([[rnd.randint(-6, 6) for _ in range(n)]], dtype=np.float32) * 2.0 ** SX
  del log[:]
  y = lay(tf.constant(x)).numpy()
  rec = {r: (a, b) for r, a, b in log}
  ev = {"kind": "layer", "cls": "QDense", "g": {"sh": 1, "sw": 1, "dh": 1, "dw": 1, "pad": "valid"}, "usebias": int(usebias),
        "hasact": int(hasact), "ph": 1, "pw": 1, "qm": 1, "applied": [r for r, _, _ in log], "dm": 1}
  st = L.Dense(m, use_bias=usebias)
  st.build((None, n))
  if not with_q:
    st.set_weights(ws)
    ev.update({"kind": "plain", "stock": int(np.array_equal(st(tf.constant(x)).numpy(), y))})
    return ev
  ev["reported"] = [names_for(lay)[j] for j, q in enumerate(lay.get_quantizers()) if q is not None]
  st.set_weights([rec["kernel"][1]] + ([rec["bias"][1]] if usebias else []))
  ys = st(tf.constant(x))
  if hasact:
    ys = AQ()(ys)
  ev["stock"] = int(np.array_equal(np.asarray(ys), y))
  ev["x"] = ints(x[0], SX)
  ev["qk"] = ints(rec["kernel"][1], -3)
  ev["qk2"] = [[[[0]]]]
  ev["qb"] = ints(rec["bias"][1], -5) if usebias else [0]
  ev["pre"] = ints(rec["activation"][0][0] if hasact else y[0], -5)
  return ev


def scaleshift_case(rnd, with_q=True):
  """QScaleShift: y = x * q(weight) + q(bias), one scalar weight and bias for the whole tensor."""
  from qkeras import QScaleShift
  log = []
  usebias = rnd.random() < 0.6
  hasact = with_q and rnd.random() < 0.5
  kw = {}
  if with_q:
    kw["weight_quantizer"] = Proxy(KQ(), "kernel", log)
    if usebias:
      kw["bias_quantizer"] = Proxy(BQ(), "bias", log)
    if hasact:
      kw["activation"] = Proxy(AQ(), "activation", log)
  lay = QScaleShift(use_bias=usebias, **kw)
  n = rnd.choice([1, 4, 6])
  lay.build((None, n))
  ws = [np.random.RandomState(rnd.randint(0, 10 ** 6)).uniform(-1.2, 1.2, v.shape).astype(np.float32) for v in lay.get_weights()]
  lay.set_weights(ws)
  x = np.array([[rnd.randint(-6, 6) for _ in range(n)]], dtype=np.float32) * 2.0 ** SX
  del log[:]
  y = lay(tf.constant(x)).numpy()
  rec = {r: (a, b) for r, a, b in log}
  ev = {"kind": "layer" if with_q else "plain", "cls": "QScaleShift", "g": {"sh": 1, "sw": 1, "dh": 1, "dw": 1, "pad": "valid"},
        "usebias": int(usebias), "hasact": int(hasact), "ph": 1, "pw": 1, "qm": 1, "applied": [r for r, _, _ in log], "dm": 1}
  w = np.asarray(rec["kernel"][1]) if with_q else ws[0]
  b = (np.asarray(rec["bias"][1]) if with_q else ws[1]) if usebias else np.zeros((1, 1), np.float32)
  ys = x * w + b if usebias else x * w
  if hasact:
    ys = np.asarray(AQ()(tf.constant(ys.astype(np.float32))))
  ev["stock"] = int(np.array_equal(np.asarray(ys, dtype=np.float32), y))
  if not with_q:
    return ev
  ev["reported"] = [["kernel", "bias"][j] for j, q in enumerate(lay.get_quantizers()) if q is not None]
  ev["x"] = ints(x[0], SX)
  ev["qk"] = ints(w, -3)
  ev["qk2"] = [[[[0]]]]
  ev["qb"] = ints(b.reshape(-1), -5) if usebias else [0]
  ev["pre"] = ints(rec["activation"][0][0] if hasact else y[0], -5)
  return ev


def string_case(cls):
  """A layer built from quantizer STRINGS (the form used in model files and conversion dictionaries): what
  get_quantizers() reports has to be the very quantizer objects the layer applies, in weight order."""
  import qkeras as qk
  s1, s2, s3 = "quantized_bits(4,0,1)", "quantized_bits(5,1,1)", "quantized_bits(6,2,1)"
  specs = {
      "QDense": (lambda: qk.QDense(2, kernel_quantizer=s1, bias_quantizer=s2), (None, 3), ["kernel_quantizer_internal", "bias_quantizer_internal"]),
      "QConv1D": (lambda: qk.QConv1D(2, 2, kernel_quantizer=s1, bias_quantizer=s2), (None, 4, 2), ["kernel_quantizer_internal", "bias_quantizer_internal"]),
      "QConv2D": (lambda: qk.QConv2D(2, (2, 2), kernel_quantizer=s1, bias_quantizer=s2), (None, 3, 3, 2), ["kernel_quantizer_internal", "bias_quantizer_internal"]),
      "QDepthwiseConv2D": (lambda: qk.QDepthwiseConv2D((2, 2), depthwise_quantizer=s1, bias_quantizer=s2), (None, 3, 3, 2),
                           ["depthwise_quantizer_internal", "bias_quantizer_internal"]),
      "QSeparableConv2D": (lambda: qk.QSeparableConv2D(2, (2, 2), depthwise_quantizer=s1, pointwise_quantizer=s3, bias_quantizer=s2), (None, 3, 3, 2),
                           ["depthwise_quantizer_internal", "pointwise_quantizer_internal", "bias_quantizer_internal"]),
      "QSeparableConv1D": (lambda: qk.QSeparableConv1D(2, 2, depthwise_quantizer=s1, pointwise_quantizer=s3, bias_quantizer=s2), (None, 4, 2),
                           ["depthwise_quantizer_internal", "pointwise_quantizer_internal", "bias_quantizer_internal"]),
      "QScaleShift": (lambda: qk.QScaleShift(weight_quantizer=s1, bias_quantizer=s2), (None, 3),
                      ["weight_quantizer_internal", "bias_quantizer_internal"]),
      "QAveragePooling2D": (lambda: qk.QAveragePooling2D((2, 2), average_quantizer=s1), (None, 4, 4, 1), ["average_quantizer_internal"]),
      "QGlobalAveragePooling2D": (lambda: qk.QGlobalAveragePooling2D(average_quantizer=s1), (None, 4, 4, 1), ["average_quantizer_internal"]),
      "QSimpleRNN": (lambda: qk.QSimpleRNN(2, kernel_quantizer=s1, recurrent_quantizer=s3, bias_quantizer=s2), (None, 3, 2),
                     ["kernel_quantizer_internal", "recurrent_quantizer_internal", "bias_quantizer_internal"]),
      "QLSTM": (lambda: qk.QLSTM(2, kernel_quantizer=s1, recurrent_quantizer=s3, bias_quantizer=s2), (None, 3, 2),
                ["kernel_quantizer_internal", "recurrent_quantizer_internal", "bias_quantizer_internal"]),
      "QGRU": (lambda: qk.QGRU(2, kernel_quantizer=s1, recurrent_quantizer=s3, bias_quantizer=s2, reset_after=False), (None, 3, 2),
               ["kernel_quantizer_internal", "recurrent_quantizer_internal", "bias_quantizer_internal"]),
  }
  if cls == "QBidirectional":
    lay = qk.QBidirectional(qk.QLSTM(2, kernel_quantizer=s1, recurrent_quantizer=s3, bias_quantizer=s2))
    lay.build((None, 3, 2))
    lay(tf.zeros((1, 3, 2)))
    fwd, bwd = list(lay.forward_layer.get_quantizers()), list(lay.backward_layer.get_quantizers())
    r1 = list(lay.get_quantizers())
    r2 = list(lay.get_quantizers())                    # asking twice must not change anything (no shared list grows)
    ok = int(len(r1) == len(fwd) + len(bwd) and all(a is b for a, b in zip(r1, fwd + bwd)) and
             len(r2) == len(r1) and all(a is b for a, b in zip(r1, r2)) and
             len(lay.forward_layer.get_quantizers()) == len(fwd) and len(lay.backward_layer.get_quantizers()) == len(bwd))
    return {"kind": "strq", "cls": cls, "applied_ok": ok, "stock": 1}
  mk, shape, attrs = specs[cls]
  ok = 1
  for rebuilt in (False, True):
    lay = mk()
    if rebuilt:                                   # the same layer rebuilt from its own configuration
      lay = lay.__class__.from_config(lay.get_config())
    lay.build(shape)
    lay(tf.zeros((1,) + tuple(shape[1:])))
    reported = [q for q in lay.get_quantizers() if q is not None]
    again = [q for q in lay.get_quantizers() if q is not None]
    if len(again) != len(reported) or any(a is not b for a, b in zip(again, reported)):
      ok = 0
    applied = [getattr(lay, a) for a in attrs]
    if len(reported) < len(applied) or any(r is not a for r, a in zip(reported, applied)) or not all(callable(r) for r in reported):
      ok = 0
  return {"kind": "strq", "cls": cls, "applied_ok": ok, "stock": 1}


STRING_CLASSES = ["QDense", "QConv1D", "QConv2D", "QDepthwiseConv2D", "QSeparableConv2D", "QSeparableConv1D", "QScaleShift",
                  "QAveragePooling2D", "QGlobalAveragePooling2D", "QSimpleRNN", "QLSTM", "QGRU", "QBidirectional"]


def pool_case(rnd, cls):
  log = []
  h, w, c = rnd.choice([4, 6]), rnd.choice([4, 6]), rnd.choice([1, 2])
  ph, pw = rnd.choice([(2, 2), (2, 3), (1, 2), (3, 2), (2, 1)])
  s = rnd.choice([1, 2])
  hasact = rnd.random() < 0.5
  qkw = {"average_quantizer": Proxy(Q.quantized_bits(8, 0, 1, alpha=1.0), "average", log)}
  if hasact:
    qkw["activation"] = Proxy(Q.quantized_bits(12, 6, 1, alpha=1.0), "activation", log)
  # channels_first and (global pooling) keepdims: same numbers, other layout / rank of the result
  cf = rnd.random() < 0.3
  keep = cls == "QGlobalAveragePooling2D" and rnd.random() < 0.4
  fmt = dict(data_format="channels_first") if cf else {}
  to_cf = (lambda a: np.moveaxis(np.asarray(a), -1, 1)) if cf else (lambda a: np.asarray(a))
  to_cl = (lambda a: np.moveaxis(np.asarray(a), 1, -1)) if cf else (lambda a: np.asarray(a))
  if cls == "QAveragePooling2D":
    lay = QAveragePooling2D(pool_size=(ph, pw), strides=(s, s), padding="valid", **fmt, **qkw)
    area = ph * pw
  else:
    lay = QGlobalAveragePooling2D(keepdims=keep, **fmt, **qkw)
    area = h * w
  if cls == "QGlobalAveragePooling2D" and rnd.random() < 0.5:
    # history: the same layer object was used before on another spatial size (fully convolutional use)
    h0, w0 = rnd.choice([(2, 3), (3, 5), (5, 5)])
    lay(tf.zeros((1, c, h0, w0) if cf else (1, h0, w0, c)))
    del log[:]
  x = np.array([rnd.randint(-6, 6) for _ in range(h * w * c)], dtype=np.float32).reshape((1, h, w, c)) * 2.0 ** SX
  y_raw = lay(tf.constant(to_cf(x))).numpy()
  # the stock layer of the same geometry fixes the shape of the result
  st_lay = L.AveragePooling2D(pool_size=(ph, pw), strides=(s, s), padding="valid", **fmt) if cls == "QAveragePooling2D" else \
      L.GlobalAveragePooling2D(keepdims=keep, **fmt)
  shape_ok = tuple(y_raw.shape) == tuple(st_lay(tf.constant(to_cf(x))).shape)
  y = to_cl(y_raw) if y_raw.ndim == 4 else y_raw
  if keep and y.ndim == 4:
    y = y.reshape((y.shape[0], -1))
  rec = {r: (a, b) for r, a, b in log}
  # the average quantizer is applied to the reciprocal of THIS call's pooling area
  area_ok = int(np.float32(np.asarray(rec["average"][0]).reshape(-1)[0]) == np.float32(1.0 / area))
  qmult = float(np.asarray(rec["average"][1]))
  qm = int(round(qmult * 128))
  ev = {"kind": "layer", "cls": cls, "g": {"sh": s, "sw": s, "dh": 1, "dw": 1, "pad": "valid"}, "usebias": 0,
        "hasact": int(hasact), "ph": ph, "pw": pw, "qm": qm, "applied": [r for r, _, _ in log], "dm": 1, "area_ok": area_ok,
        "reported": [names_for(lay)[j] for j, q in enumerate(lay.get_quantizers()) if q is not None]}
  # literal oracle: stock average pooling of the same input times the recorded quantized reciprocal (x area)
  if cls == "QAveragePooling2D":
    st = L.AveragePooling2D(pool_size=(ph, pw), strides=(s, s), padding="valid")(tf.constant(x * area))
  else:
    st = tf.reduce_sum(tf.constant(x), axis=[1, 2])
  ys = st * qmult
  if hasact:
    ys = Q.quantized_bits(12, 6, 1, alpha=1.0)(ys)
  ev["stock"] = int(shape_ok and np.array_equal(np.asarray(ys), y))
  ev["cf"], ev["keepdims"] = int(cf), int(keep)
  ev["x"] = ints(x[0], SX)
  ev["qk"] = [[[[0]]]]
  ev["qk2"] = [[[[0]]]]
  ev["qb"] = [0]
  pre = rec["activation"][0] if hasact else y_raw
  pre = to_cl(pre) if np.ndim(pre) == 4 else np.asarray(pre)
  if keep and pre.ndim == 4:
    pre = pre.reshape((pre.shape[0], -1))
  ev["pre"] = ints(pre[0], SX - 7)
  return ev


def rnn_case(rnd, cls):
  """Recurrent layers: order of applications per time step and equality with the stock layer (4 ulp for QLSTM impl 1)."""
  log = []
  units, feat, steps = rnd.choice([2, 3]), rnd.choice([2, 3]), rnd.choice([2, 3])
  usebias = rnd.random() < 0.7
  # any subset of the weight quantizers may be configured (including none: the layer then is the stock layer)
  present = {r: rnd.random() < 0.7 for r in ("kernel", "recurrent", "bias")}
  kw = dict(use_bias=usebias)
  if present["kernel"]:
    kw["kernel_quantizer"] = Proxy(KQ(), "kernel", log)
  if present["recurrent"]:
    kw["recurrent_quantizer"] = Proxy(KQ(), "recurrent", log)
  if usebias and present["bias"]:
    kw["bias_quantizer"] = Proxy(BQ(), "bias", log)
  impl = rnd.choice([1, 2]) if cls != "QSimpleRNN" else None
  # sequence options shared with the stock layer
  kw.update(return_sequences=rnd.random() < 0.5, go_backwards=rnd.random() < 0.3, unroll=rnd.random() < 0.2)
  seqkw = {k: kw[k] for k in ("return_sequences", "go_backwards", "unroll")}
  if cls == "QSimpleRNN":
    lay = QSimpleRNN(units, **kw)
    st = L.SimpleRNN(units, use_bias=usebias, activation=lay.cell.activation, **seqkw)
  elif cls == "QLSTM":
    lay = QLSTM(units, implementation=impl, **kw)
    st = L.LSTM(units, use_bias=usebias, implementation=impl, activation=lay.cell.activation,
                recurrent_activation=lay.cell.recurrent_activation, unit_forget_bias=False, **seqkw)
  else:
    # reset_after=True is only executable without a bias in this TensorFlow (the bias path needs array_ops.unstack)
    ra = (not usebias) and rnd.random() < 0.5
    lay = QGRU(units, implementation=impl, reset_after=ra, **kw)
    st = L.GRU(units, use_bias=usebias, implementation=impl, reset_after=ra, activation=lay.cell.activation,
               recurrent_activation=lay.cell.recurrent_activation, **seqkw)
  x = np.array([rnd.randint(-4, 4) for _ in range(steps * feat)], dtype=np.float32).reshape((1, steps, feat)) * 2.0 ** SX
  lay.build((None, steps, feat))
  ws = [np.random.RandomState(rnd.randint(0, 10 ** 6)).uniform(-1.2, 1.2, v.shape).astype(np.float32) for v in lay.get_weights()]
  if usebias:
    ws[-1] = np.random.RandomState(rnd.randint(0, 10 ** 6)).uniform(-3, 3, ws[-1].shape).astype(np.float32)
  lay.set_weights(ws)
  del log[:]
  # half of the cases: a step mask (what a Masking / Embedding(mask_zero=True) layer in front hands over)
  mask = None
  if rnd.random() < 0.5:
    mask = tf.constant(np.array([[rnd.random() < 0.6 for _ in range(steps)]]))
  y = lay(tf.constant(x), mask=mask).numpy()
  roles = [r for r, _, _ in log]
  per_step = [r for r in ("kernel", "recurrent") if present[r]] + (["bias"] if usebias and present["bias"] else [])
  # every time step applies each weight quantizer exactly once (order inside a step is the cell's business)
  # the step function may be traced once or run per time step: every weight role is applied equally often and no
  # other role is applied
  ok = set(roles) == set(per_step) and len({roles.count(r) for r in per_step}) <= 1
  st.build((None, steps, feat))
  qw = [np.asarray(KQ()(tf.constant(ws[0]))) if present["kernel"] else ws[0],
        np.asarray(KQ()(tf.constant(ws[1]))) if present["recurrent"] else ws[1]]
  if usebias:
    qw.append(np.asarray(BQ()(tf.constant(ws[2]))) if present["bias"] else ws[2])
  st.set_weights(qw)
  ys = st(tf.constant(x), mask=mask).numpy()
  tol = 4 * np.spacing(np.maximum(np.abs(ys), np.float32(1e-6)).astype(np.float32))
  return {"kind": "rnn", "cls": cls, "impl": impl or 0, "usebias": int(usebias), "applied_ok": int(ok),
          "stock": int(bool(np.all(np.abs(ys - y) <= tol))), "applied": roles[:6],
          "present": "".join(r[0] for r in ("kernel", "recurrent", "bias") if present[r] and (r != "bias" or usebias))}


def main():
  _, prefix, tier, seed, shard, nshards = sys.argv[1:7]
  seed, shard, nshards = int(seed), int(shard), int(nshards)
  rnd = random.Random(seed * 1000 + shard)
  n = 14 if tier == "quick" else 120
  events, errors = [], []
  plan = []
  for cls in ("QConv2D", "QConv1D", "QDepthwiseConv2D", "QSeparableConv2D", "QSeparableConv1D"):
    plan += [("conv", cls, True)] * n + [("conv", cls, False)] * max(2, n // 6)
  plan += [("dense", "QDense", True)] * n + [("dense", "QDense", False)] * max(2, n // 6)
  plan += [("pool", "QAveragePooling2D", True)] * n + [("pool", "QGlobalAveragePooling2D", True)] * max(3, n // 3)
  plan += [("rnn", c, True) for c in ("QSimpleRNN", "QLSTM", "QGRU")] * max(4, n // 3)
  plan += [("scaleshift", "QScaleShift", True)] * max(3, n // 3) + [("scaleshift", "QScaleShift", False)]
  plan += [("strq", c, True) for j, c in enumerate(STRING_CLASSES) if j % nshards == shard % len(STRING_CLASSES) or nshards == 1]
  for kind, cls, wq in plan:
    try:
      if kind == "conv":
        ev = conv_case(rnd, cls, wq)
      elif kind == "dense":
        ev = dense_case(rnd, wq)
      elif kind == "pool":
        ev = pool_case(rnd, cls)
      elif kind == "scaleshift":
        ev = scaleshift_case(rnd, wq)
      elif kind == "strq":
        ev = string_case(cls)
      else:
        ev = rnn_case(rnd, cls)
      for k, v in (("x", [0]), ("qk", [0]), ("qk2", [0]), ("qb", [0]), ("pre", [0]), ("reported", []), ("applied", []),
                   ("applied_ok", 1), ("stock", 1), ("g", {"sh": 1, "sw": 1, "dh": 1, "dw": 1, "pad": "valid"}),
                   ("usebias", 0), ("hasact", 0), ("ph", 1), ("pw", 1), ("qm", 1), ("area_ok", 1)):
        ev.setdefault(k, v)
      events.append(ev)
    except Exception as e:
      errors.append({"k": "exc", "cls": cls, "with_quantizers": wq, "exc": repr(e)[:300]})
  write_ndjson("%s.%d.ndjson" % (prefix, shard), events)
  json.dump(errors, open("%s.%d.err.json" % (prefix, shard), "w"))
  print(json.dumps({"events": len(events), "errors": len(errors)}))


if __name__ == "__main__":
  main()
