"""Driver for the QAdaptiveActivation state machine (spec growth beyond the listed properties; bin/extra).

usage: drive_qadaptive.py <out.ndjson> <kn> <sym> <bits> <delay> <freeze|-1> <seed> <ntraces>
Real layers are driven through random call sequences (training / inference, tensors realising a chosen activation
minimum and maximum); after every call the layer's state is projected: step, ema_min, ema_max, integer bits, and
whether the output was the unquantized activation.
"""
import json
import random
import sys
import numpy as np
from qk import tf, Q
from qkeras import QAdaptiveActivation
from common import dy, write_ndjson

VALUES = [0.0, 0.75, 5.0, -3.0, 1.5, 0.375, -0.5, 12.0]


def main():
  out, kn, sym, bits, delay, freeze, seed, ntraces = sys.argv[1:9]
  kn, sym, bits, delay, freeze, seed, ntraces = int(kn), int(sym), int(bits), int(delay), int(freeze), int(seed), int(ntraces)
  rnd = random.Random(seed)
  events = []
  for t in range(ntraces):
    lay = QAdaptiveActivation("quantized_bits" if kn else "quantized_relu", bits, symmetric=bool(sym), quantization_delay=delay,
                              ema_freeze_delay=None if freeze < 0 else freeze, ema_decay=0.5)
    events.append({"t": t, "a": "New"})
    for _ in range(rnd.randint(2, 7)):
      training = rnd.random() < 0.6
      vals = [v for v in VALUES if kn or v >= 0]
      a, b = sorted([rnd.choice(vals), rnd.choice(vals)])
      mid = np.float32(a + (b - a) * 0.3) if a < b else np.float32(a)
      x = np.array([[a, b, mid, mid]], dtype=np.float32)
      y = np.asarray(lay(tf.constant(x), training=training))
      act = x if kn else np.maximum(x, 0)
      # the noise factor the wrapped quantizer was left with is the one used for the returned tensor; cross-checked
      # against the tensor itself where the tensor can tell (an off-grid interior value)
      f = lay.quantizer.qnoise_factor
      lastq = int(round(float(f.numpy() if hasattr(f, "numpy") else f)))
      if a < b and lastq == 0 and not np.array_equal(y, act):
        lastq = 7                       # claims "unquantized" but the output differs from the activation
      events.append({"t": t, "a": "Call", "training": int(training), "amin": dy(np.float32(act.min())), "amax": dy(np.float32(act.max())),
                     "step": int(lay.step.numpy()), "emin": dy(lay.ema_min.numpy().reshape(-1)[0]),
                     "emax": dy(lay.ema_max.numpy().reshape(-1)[0]), "integer": int(lay.quantizer.integer.numpy().reshape(-1)[0]),
                     "lastq": lastq})
  for e in events:
    for k, v in (("training", 0), ("amin", [0, 0]), ("amax", [0, 0]), ("step", 0), ("emin", [0, 0]), ("emax", [0, 0]), ("integer", 0), ("lastq", 1)):
      e.setdefault(k, v)
  write_ndjson(out, events)
  print(json.dumps({"events": len(events), "traces": ntraces}))


if __name__ == "__main__":
  main()
