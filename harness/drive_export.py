"""Driver for C14: utils.model_save_quantized_weights on real quantized models.

usage: drive_export.py <unused> <out_prefix> <tier> <seed> <shard> <nshards>
"""
import copy
import json
import random
import sys
import numpy as np
from qk import tf, Q, qkeras
from qkeras import QConv2D, QDepthwiseConv2D, QDense, QBatchNormalization, QActivation
from qkeras import utils as qutils
from common import dy, write_ndjson
import qmodels
from drive_bnfold import rints, set_named, EPS, EX, EK, EG, EB, EFB
from drive_layers import ints

L = tf.keras.layers
CLASSES = ["QDense", "QConv1D", "QConv2D", "QDepthwiseConv2D", "QSeparableConv2D", "QSeparableConv1D", "QSimpleRNN", "QLSTM", "QGRU",
           "QBidirectional", "QBatchNormalization", "QScaleShift"]
VARIANTS = ["fixed", "po2", "auto_po2_bounds", "auto_po2_unsigned", "auto_axis", "ternary_auto", "binary_axis"]
INDEP = {"fixed", "po2"}


def flat(a):
  return [dy(v) for v in np.asarray(a, dtype=np.float32).reshape(-1)]


def qkind(q):
  n = q.__class__.__name__
  if n == "quantized_po2":
    return "po2"
  if n == "quantized_relu_po2":
    return "relu_po2"
  if n == "quantized_bits" and q.alpha == "auto_po2":
    return "auto_po2"
  if n == "quantized_bits" and not isinstance(q.alpha, str):
    return "fixed"
  return "other"


def pairs(layer):
  """(quantizer, weight) pairs by ROLE (my reading of the classes, not the export loop's zip)."""
  n = layer.__class__.__name__
  if n in ("QSimpleRNN", "QLSTM", "QGRU"):
    return list(zip(layer.get_quantizers()[:-1], layer.get_weights()))            # the last one is the state quantizer
  if n == "QBidirectional":
    # per direction: kernel, recurrent and - only when the direction has a bias - bias (by weight NAME, not by count)
    out = []
    for d in (layer.forward_layer, layer.backward_layer):
      role = {"kernel": 0, "recurrent_kernel": 1, "bias": 2}
      qs = d.get_quantizers()
      for v, w in zip(d.weights, d.get_weights()):
        out.append((qs[role[v.name.split("/")[-1].split(":")[0]]], w))
    return out
  if n == "QBatchNormalization":
    qs = [q for q, used in zip(layer.get_quantizers(), [layer.scale, layer.center, True, True]) if used]
    return list(zip(qs, layer.get_weights()))
  return list(zip(layer.get_quantizers(), layer.get_weights()))


def same_dict(a, b):
  if a.keys() != b.keys():
    return False
  for k in a:
    for kk in a[k]:
      va, vb = a[k][kk], b[k].get(kk)
      try:
        if isinstance(va, list):
          if len(va) != len(vb) or not all(np.array_equal(np.asarray(x), np.asarray(y)) for x, y in zip(va, vb)):
            return False
        elif not np.array_equal(np.asarray(va), np.asarray(vb)):
          return False
      except Exception:
        return False
  return True


def export_case(cls, variant, events, errors, freeze=False):
  m, x = qmodels.build(cls, variant)
  if freeze:
    m(tf.constant(x))
    m, _ = qutils.clone_model_and_freeze_auto_po2_scale(orig_model=m, quantize_model_weights=False)
    # history: the weights keep changing after the scales were frozen (fine-tuning) - a frozen scale stays what it is
    rs = np.random.RandomState(len(cls) * 7 + len(variant))
    m.set_weights([(rs.standard_t(3, size=w.shape) * 0.4).astype(np.float32) if w.dtype == np.float32 and w.ndim >= 2 else w
                   for w in m.get_weights()])
  y0 = m.predict(x, verbose=0)
  before = {}
  for lay in m.layers:
    if hasattr(lay, "get_quantizers") and lay.get_weights():
      before[lay.name] = [(copy.deepcopy(q.get_config()) if q is not None and hasattr(q, "get_config") else None, q, w.copy())
                          for q, w in pairs(lay)]
  d1 = qutils.model_save_quantized_weights(m)
  y1 = m.predict(x, verbose=0)
  w_after = [w.copy() for w in m.get_weights()]
  for lay in m.layers:
    if lay.name not in before:
      continue
    ent = d1[lay.name]
    stored = lay.get_weights()
    for j, (cfg, q, w0) in enumerate(before[lay.name]):
      if q is None:
        continue
      fresh = q.__class__.from_config(cfg) if cfg is not None else q
      qw = np.asarray(fresh(tf.constant(w0)))
      kind = qkind(q)
      ev = {"kind": "role", "cls": cls, "variant": variant, "layer": lay.name, "role": j, "qkind": kind,
            "bits": int(getattr(q, "bits", 0)), "kn": int(bool(getattr(q, "keep_negative", 1))),
            "w1": flat(stored[j]), "qw": flat(qw), "hw": flat(ent["weights"][j]), "sg": [[1, 0]] * qw.size, "sc": [[1, 0]] * qw.size}
      ev["sgbad"] = 0
      if kind == "po2":
        sg = ent["signs"][j] if j < len(ent.get("signs", [])) else []
        if np.size(sg) == qw.size:
          ev["sg"] = flat(sg)
        else:
          ev["sgbad"] = 1                 # the signs entry of this weight is missing / belongs to another weight
      ev["int"] = int(np.asarray(getattr(q, "integer", 0)).reshape(-1)[0]) if kind == "auto_po2" else 0
      ev["qs"] = [[1, 0]] * qw.size
      if kind == "auto_po2":
        ev["sc"] = flat(np.broadcast_to(np.asarray(ent["scales"][j], dtype=np.float32), qw.shape))
        qs = q.scale.numpy() if hasattr(q.scale, "numpy") else np.asarray(q.scale)
        ev["qs"] = flat(np.broadcast_to(np.asarray(qs, dtype=np.float32), qw.shape))
      events.append(ev)
  d2 = qutils.model_save_quantized_weights(m)
  second = all(np.array_equal(a, b) for a, b in zip(w_after, m.get_weights())) and same_dict(d1, d2)
  allow = ["QDense", "QConv1D", "QConv2D", "QDepthwiseConv2D", "QSeparableConv1D", "QSeparableConv2D", "QSimpleRNN", "QLSTM", "QGRU"]
  sp = float(qutils.get_model_sparsity(m))
  ws = [w.ravel() for lay in m.layers if lay.__class__.__name__ in allow and hasattr(lay, "quantizers") for w in lay.get_weights()]
  den = int(sum(w.size for w in ws))
  zeros = int(sum(int(np.sum(w == 0)) for w in ws))
  events.append({"kind": "model", "cls": cls, "variant": variant, "indep": int(variant in INDEP and not freeze),
                 "frozen": int(freeze), "pred": int(np.array_equal(y0, y1)), "second": int(second),
                 "spden": den, "zeros": zeros, "spz": int(round(sp * den))})


def folded_case(rnd, events, dw):
  """Batch-norm folded layers: the dictionary entry is the quantizer applied to the FOLDED kernel and bias
  (kernel * gamma / sqrt(var + eps), (bias - mean) * gamma / sqrt(var + eps) + beta); the layer's own variables and the
  predictions stay as they are."""
  from qkeras import QConv2DBatchnorm, QDepthwiseConv2DBatchnorm
  kq, bq = "quantized_bits(6,2,1,alpha=1.0)", "quantized_bits(8,4,1,alpha=1.0)"
  i = L.Input((4, 4, 2))
  usebias = rnd.random() < 0.5
  if dw:
    lay = QDepthwiseConv2DBatchnorm((2, 2), depthwise_quantizer=kq, bias_quantizer=bq, use_bias=usebias, epsilon=EPS, name="f")
  else:
    lay = QConv2DBatchnorm(3, (2, 2), kernel_quantizer=kq, bias_quantizer=bq, use_bias=usebias, epsilon=EPS, name="f")
  m = tf.keras.Model(i, lay(i))
  nch = 2 if dw else 3
  J = np.array([rnd.randint(0, 2) for _ in range(nch)])
  vals = {"kernel": rints(rnd, (2, 2, 2, 3), -6, 6, EK), "depthwise_kernel": rints(rnd, (2, 2, 2, 1), -6, 6, EK),
          "bias": rints(rnd, (nch,), -5, 5, EB), "gamma": rints(rnd, (nch,), 1, 4, EG), "beta": rints(rnd, (nch,), -20, 20, EFB),
          "moving_mean": rints(rnd, (nch,), -5, 5, EB), "moving_variance": (4.0 ** J - EPS).astype(np.float32)}
  set_named(lay, vals)
  x = rints(rnd, (2, 4, 4, 2), -6, 6, EX)
  y0 = m.predict(x, verbose=0)
  w0 = [w.copy() for w in lay.get_weights()]
  d = qutils.model_save_quantized_weights(m)
  inv = (vals["gamma"] * 2.0 ** (-J.astype(np.float64))).astype(np.float32)
  k = vals["depthwise_kernel"] * inv.reshape((nch, 1)) if dw else vals["kernel"] * inv
  b = ((vals["bias"] if usebias else 0.0) - vals["moving_mean"]) * inv + vals["beta"]
  want = [np.asarray(Q.get_quantizer(kq)(tf.constant(k.astype(np.float32)))), np.asarray(Q.get_quantizer(bq)(tf.constant(b.astype(np.float32))))]
  got = d.get("f", {}).get("weights", [])
  ok = len(got) == 2 and all(np.array_equal(np.asarray(a), w) for a, w in zip(got, want))
  same = all(np.array_equal(a, b_) for a, b_ in zip(w0, lay.get_weights())) and np.array_equal(y0, m.predict(x, verbose=0))
  events.append({"kind": "folded", "cls": "QDepthwiseConv2DBatchnorm" if dw else "QConv2DBatchnorm", "dw": int(dw), "usebias": int(usebias), "entry_ok": int(ok), "layer_untouched": int(same),
                 "gam": [1], "J": [0], "b": [0], "mean": [0], "beta": [0], "inv": [0], "fb": [0], "qinv": [0], "bnw_ok": 1})


class UserScale(L.Layer):
  """A user-defined layer class, known to the library only through custom_objects."""

  def call(self, x):
    return x * 0.5


def bnfuse_case(rnd, events):
  dw = rnd.random() < 0.4
  usebias = rnd.random() < 0.6
  center, scale = rnd.random() < 0.8, rnd.random() < 0.8
  wide = "quantized_bits(16,7,1,alpha=1.0)"
  # half of the cases: a bias quantizer that really rounds (step 2^EB) and a float bias off its grid - the exported
  # fused bias has to be the batch-norm algebra on the QUANTIZED bias
  lossy = usebias and rnd.random() < 0.5
  bq = "quantized_bits(5,2,1,alpha=1.0)" if lossy else wide
  # or a power-of-two bias quantizer (exported in sign / exponent form): the fused bias is still the algebra on the
  # quantized bias VALUE
  po2b = usebias and not lossy and rnd.random() < 0.4
  if po2b:
    bq = "quantized_po2(8)"
  # the batch-norm layer's own quantizers: a really rounding beta quantizer (step 2^-3, beta on the 2^EFB grid), or an
  # inverse quantizer (step 2^-1) on gamma*rsqrt(var+eps) - then gamma / variance quantizers have to be None
  invq = scale and rnd.random() < 0.4
  lossy_beta = center and rnd.random() < 0.5
  betaq = "quantized_bits(7,3,1,alpha=1.0)" if lossy_beta else wide
  i = L.Input((4, 4, 2))
  nch = 2 if dw else 3
  if dw:
    conv = QDepthwiseConv2D((2, 2), depthwise_quantizer=wide, bias_quantizer=bq, use_bias=usebias, name="conv")
  else:
    conv = QConv2D(3, (2, 2), kernel_quantizer=wide, bias_quantizer=bq, use_bias=usebias, name="conv")
  bn = QBatchNormalization(epsilon=EPS, center=center, scale=scale, gamma_quantizer=None if invq else wide, beta_quantizer=betaq,
                           mean_quantizer=wide, variance_quantizer=None,
                           inverse_quantizer="quantized_bits(6,4,1,alpha=1.0)" if invq else None, name="bn")
  # a third of the cases: the convolution has a second consumer (skip connection) - the pair is then NOT fusable and
  # the export must not describe it as fused
  branch = rnd.random() < 0.33
  c_out = conv(i)
  # some models also contain a user-defined layer; the caller then hands its class over in custom_objects
  user = rnd.random() < 0.35
  tail = (lambda t: UserScale(name="user")(t)) if user else (lambda t: t)
  if branch:
    m = tf.keras.Model(i, L.Concatenate(name="skip")([tail(bn(c_out)), L.Activation("linear", name="side")(c_out)]))
  else:
    m = tf.keras.Model(i, tail(bn(c_out)))
  J = np.array([rnd.randint(0, 2) for _ in range(nch)])
  gam = rints(rnd, (nch,), 0, 4, EG) if scale else np.ones((nch,), np.float32)
  beta = rints(rnd, (nch,), -20, 20, EFB) if center else np.zeros((nch,), np.float32)
  mean = rints(rnd, (nch,), -5, 5, EB)
  b = rints(rnd, (nch,), -5, 5, EB) if usebias else np.zeros((nch,), np.float32)
  if po2b:
    b = np.array([rnd.choice([-1.0, 1.0]) * 2.0 ** rnd.randint(EB, 2) for _ in range(nch)], dtype=np.float32)     # exact powers of two
  set_named(bn, {"gamma": gam, "beta": beta, "moving_mean": mean, "moving_variance": (4.0 ** J - EPS).astype(np.float32)})
  ws = conv.get_weights()
  ws[0] = rints(rnd, ws[0].shape, -6, 6, EK)
  if usebias:
    ws[1] = (b + np.float32(2.0 ** (EB - 2))) if lossy else b         # a quarter step off the grid: rounds back to b
  conv.set_weights(ws)
  # what a fresh quantizer makes of the batch-norm parameters (harness side; TLC gets the integer codes)
  qbeta = np.asarray(Q.get_quantizer(betaq)(tf.constant(beta))) if center else beta
  inv_exact = (gam * 2.0 ** (-J.astype(np.float64))).astype(np.float32)
  qinv = np.asarray(Q.get_quantizer("quantized_bits(6,4,1,alpha=1.0)")(tf.constant(inv_exact))) if invq else inv_exact
  bn_before = [w.copy() for w in bn.get_weights()]
  d = qutils.model_save_quantized_weights(m, custom_objects={"UserScale": UserScale}) if user else qutils.model_save_quantized_weights(m)
  ent = d["conv"]
  if branch:
    marked = bool(ent.get("enable_bn_fusing")) or "bn_inv" in ent or "fused_bias" in ent or bool(d.get("bn", {}).get("enable_bn_fusing"))
    events.append({"kind": "bnfuse", "gam": [1], "J": [0], "b": [0], "mean": [0], "beta": [0], "inv": [0], "fb": [0],
                   "qinv": [0], "bnw_ok": 1, "fusable": 0, "marked": int(marked), "dw": int(dw)})
    return
  if not ent.get("enable_bn_fusing"):
    events.append({"kind": "bnfuse", "gam": [1], "J": [0], "b": [0], "mean": [0], "beta": [0], "inv": [999], "fb": [0],
                   "qinv": [0], "bnw_ok": 1, "note": "pair not detected"})
    return
  # the fused batch-norm layer is exported like every other layer: its stored weights and its dictionary entry are
  # the quantized parameters
  names = [v.name.split("/")[-1].split(":")[0] for v in bn.weights]
  want = {"beta": qbeta}
  bnw_ok = int("bn" in d and all(np.array_equal(w, want.get(n, w0)) for n, w, w0 in zip(names, bn.get_weights(), bn_before)) and
               all(np.array_equal(a, b_) for a, b_ in zip(d["bn"]["weights"], bn.get_weights())))
  events.append({"kind": "bnfuse", "dw": int(dw), "usebias": int(usebias), "lossy": int(lossy), "center": int(center), "scale": int(scale),
                 "invq": int(invq), "lossy_beta": int(lossy_beta), "po2b": int(po2b),
                 "gam": ints(gam, EG), "J": [int(v) for v in J], "b": ints(b, EB), "mean": ints(mean, EB),
                 "beta": ints(qbeta, EFB), "inv": ints(np.broadcast_to(ent["bn_inv"], (nch,)), EG - 2),
                 "qinv": ints(np.broadcast_to(qinv, (nch,)), EG - 2), "bnw_ok": bnw_ok,
                 "fb": ints(np.broadcast_to(ent["fused_bias"], (nch,)), EFB)})


def main():
  _, prefix, tier, seed, shard, nshards = sys.argv[1:7]
  seed, shard, nshards = int(seed), int(shard), int(nshards)
  rnd = random.Random(seed * 1000 + shard)
  events, errors = [], []
  cases = [(c, v, False) for c in CLASSES for v in VARIANTS] + [(c, v, True) for c in ("QDense", "QConv2D") for v in ("auto_po2_bounds", "auto_po2_unsigned")]
  for j, (cls, variant, freeze) in enumerate(cases):
    if j % nshards != shard:
      continue
    if cls in ("QBatchNormalization", "QScaleShift") and variant not in ("fixed", "po2"):
      continue
    try:
      export_case(cls, variant, events, errors, freeze)
    except Exception as e:
      errors.append({"k": "exc", "cls": cls, "variant": variant, "freeze": freeze, "exc": repr(e)[:300]})
  for t in range(2 if tier == "quick" else 10):
    try:
      folded_case(rnd, events, dw=bool((t + shard) % 2))
    except Exception as e:
      errors.append({"k": "exc", "cls": "folded", "variant": "", "freeze": False, "exc": repr(e)[:300]})
  for _ in range(8 if tier == "quick" else 40):
    try:
      bnfuse_case(rnd, events)
    except Exception as e:
      errors.append({"k": "exc", "cls": "bnfuse", "variant": "", "freeze": False, "exc": repr(e)[:300]})
  for ev in events:
    for k, v in (("w1", [[0, 0]]), ("qw", [[0, 0]]), ("hw", [[0, 0]]), ("sg", [[1, 0]]), ("sc", [[1, 0]]), ("qkind", "other"),
                 ("bits", 0), ("kn", 1), ("sgbad", 0), ("int", 0), ("qs", [[1, 0]]), ("indep", 0), ("frozen", 0), ("pred", 1), ("second", 1), ("gam", [0]), ("J", [0]),
                 ("lossy", 0), ("entry_ok", 1), ("layer_untouched", 1), ("fusable", 1), ("marked", 1), ("qinv", [0]), ("bnw_ok", 1), ("spden", 0), ("zeros", 0), ("spz", 0), ("b", [0]), ("mean", [0]), ("beta", [0]), ("inv", [0]), ("fb", [0])):
      ev.setdefault(k, v)
  write_ndjson("%s.%d.ndjson" % (prefix, shard), events)
  json.dump(errors, open("%s.%d.err.json" % (prefix, shard), "w"))
  print(json.dumps({"events": len(events), "errors": len(errors)}))


if __name__ == "__main__":
  main()
