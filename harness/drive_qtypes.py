"""Driver for C16 / C17: the real qtools factories on the operand-type lattice.

usage: drive_qtypes.py <operands.json> <out_prefix> <tier> <seed> <shard> <nshards>
"""
import json
import math
import random
import sys
import numpy as np
from qk import tf, Q
from qkeras.qtools.quantized_operators import (quantizer_factory, multiplier_factory, accumulator_factory, merge_factory,
                                                adder_factory)
from common import write_ndjson


def qkeras_quantizer(o):
  s = o["src"]
  mv = (o["mvm"] * 2.0 ** o["mvk"]) if o["hasmv"] else None
  if s == "bits":
    # (the flag as a bool or as the integer 0 / 1 that quantizer strings produce)
    return Q.quantized_bits(o["bits"], o["int"], keep_negative=(o["kn"] if o["bits"] % 2 else bool(o["kn"])), alpha=1.0)
  if s == "relu":
    return Q.quantized_relu(o["bits"], o["int"])
  if s == "po2":
    return Q.quantized_po2(o["bits"], max_value=mv)
  if s == "relu_po2":
    return Q.quantized_relu_po2(o["bits"], max_value=mv)
  if s == "ternary":
    return Q.ternary()
  if s == "binary":
    return Q.binary()
  if s == "binary01":
    return Q.binary(use_01=True)
  raise ValueError(s)


TWINS = {"binary": lambda: Q.stochastic_binary(), "ternary": lambda: Q.stochastic_ternary(), "binary01": lambda: Q.bernoulli()}


def reported(q):
  mv = getattr(q, "max_val_po2", -1)
  hasmv = int(mv is not None and mv != -1)
  mvk = 0
  exact = True
  if hasmv:
    mvk = int(math.ceil(math.log2(mv))) if mv > 0 else -99
    exact = mv > 0 and 2.0 ** mvk == mv
  return {"mode": int(q.mode), "po2": int(bool(getattr(q, "is_po2", 0))), "bits": int(q.bits), "int": int(q.int_bits), "sg": int(bool(q.is_signed)),
          "hasmv": hasmv, "mvk": mvk, "name": str(q.name), "mv_is_pow2": exact}


def main():
  ops_path, prefix, tier, seed, shard, nshards = sys.argv[1:7]
  seed, shard, nshards = int(seed), int(shard), int(nshards)
  ops = json.load(open(ops_path))
  rnd = random.Random(seed * 1000 + shard)
  qf = quantizer_factory.QuantizerFactory()
  mf = multiplier_factory.MultiplierFactory()
  af = accumulator_factory.AccumulatorFactory()
  adder = adder_factory.IAdder()
  events, errors = [], []
  pairs = [(a, b) for a in range(len(ops)) for b in range(len(ops))]
  mine = [p for j, p in enumerate(pairs) if j % nshards == shard]
  qt = [qf.make_quantizer(qkeras_quantizer(o)) for o in ops]
  ns = [1, 2, 3, 4, 5, 7, 8, 9, 16, 17, 27, 31, 32, 64, 100, 1024, 1025, 4096, 4097]
  # floating-point operands (fp16 / fp32) against every operand type and against each other: the product of a float
  # and anything is a float at least as wide as the widest float operand, implemented as a multiplier
  if shard == 0:
    floats = {16: lambda: qf.make_default_quantizer("fp16"), 32: lambda: qf.make_default_quantizer("fp32")}
    combos = [(wb, xb, None) for wb in (16, 32) for xb in (16, 32)]
    combos += [(fb, 0, j) for fb in (16, 32) for j in range(len(ops))] + [(0, fb, j) for fb in (16, 32) for j in range(len(ops))]
    for wb, xb, j in combos:
      try:
        qw = floats[wb]() if wb else qt[j]
        qx = floats[xb]() if xb else qt[j]
        m = mf.make_multiplier(qw, qx)
        events.append({"op": "fmul", "wf": wb, "xf": xb, "outf": int(bool(m.output.is_floating_point)), "outbits": int(m.output.bits),
                       "kind": m.implemented_as()})
      except Exception as e:
        errors.append({"k": "exc", "op": "fmul", "w": {"src": "fp%d" % wb}, "x": {"src": "fp%d" % xb}, "exc": repr(e)[:200]})
  prev = None
  for (a, b) in mine:
    w, x = ops[a], ops[b]
    try:
      m = mf.make_multiplier(qt[a], qt[b])
      out = reported(m.output)
      events.append({"op": "mul", "w": w, "x": x, "out": out, "kind": m.implemented_as()})
      # history: one factory serves many operand pairs - the type reported for an EARLIER pair must not change when a
      # later pair is built (results are independent objects)
      if prev is not None:
        events.append({"op": "alias", "same": int(reported(prev[0].output) == prev[1])})
      prev = (m, out)
      # the stochastic classes emit the same alphabets as binary / ternary / binary(use_01): same type requirements
      if (w["src"] in TWINS or x["src"] in TWINS) and ((a + 3 * b) % 4 == 0 or tier == "thorough"):
        qa = qf.make_quantizer(TWINS[w["src"]]()) if w["src"] in TWINS else qt[a]
        qb = qf.make_quantizer(TWINS[x["src"]]()) if x["src"] in TWINS else qt[b]
        m2 = mf.make_multiplier(qa, qb)
        events.append({"op": "mul", "w": w, "x": x, "out": reported(m2.output), "kind": m2.implemented_as(), "twin": 1})
    except Exception as e:
      errors.append({"k": "exc", "op": "mul", "w": w, "x": x, "exc": repr(e)[:200]})
      continue
    # accumulators sized for this multiplier: dense (N, 1) and conv (kh, kw, cin, 1) kernels realising N
    for n in (ns if (a + b) % 5 == 0 or tier == "thorough" else rnd.sample(ns, 3)):
      for bias in (0, 1):
        shape = (n, 3) if n % 2 or n < 4 else rnd.choice([(n, 3), (2, n // 2, 1, 3)])
        try:
          acc = af.make_accumulator(shape, m, use_bias=bool(bias))
          events.append({"op": "acc", "m": out, "n": n, "bias": bias, "shape": list(shape), "out": reported(acc.output)})
        except Exception as e:
          errors.append({"k": "exc", "op": "acc", "w": w, "x": x, "n": n, "exc": repr(e)[:200]})
    # adders: bias add (accumulator + bias quantizer) and operand pairs
    try:
      s = adder.make_quantizer(m.output, qt[a])
      events.append({"op": "add", "a": out, "b": reported(qt[a]), "out": reported(s.output)})
      s = adder.make_quantizer(qt[a], qt[b])
      events.append({"op": "add", "a": reported(qt[a]), "b": reported(qt[b]), "out": reported(s.output)})
    except Exception as e:
      errors.append({"k": "exc", "op": "add", "w": w, "x": x, "exc": repr(e)[:200]})
    # merge layers on the same operand pair
    for kind in ("Add", "Maximum", "Minimum", "Concatenate") if (a + 2 * b) % 3 == 0 or tier == "thorough" else ("Add",):
      try:
        mg = merge_factory.MergeFactory().make_quantizer([(qt[a], None), (qt[b], None)], kind)
        events.append({"op": "merge", "kind": kind, "a": reported(qt[a]), "b": reported(qt[b]), "out": reported(mg.output),
                       "same": int(reported(qt[a]) == reported(qt[b]))})
      except Exception as e:
        errors.append({"k": "exc", "op": "merge", "w": w, "x": x, "exc": repr(e)[:200]})
    # a merge of three inputs [A, B, A]: the output still has to contain every operand type
    if a != b and ((a + 5 * b) % 6 == 0 or tier == "thorough"):
      for kind in ("Maximum", "Concatenate"):
        try:
          mg = merge_factory.MergeFactory().make_quantizer([(qt[a], None), (qt[b], None), (qt[a], None)], kind)
          events.append({"op": "merge", "kind": kind, "a": reported(qt[a]), "b": reported(qt[b]), "out": reported(mg.output),
                         "same": 0, "n_inputs": 3})
        except Exception as e:
          errors.append({"k": "exc", "op": "merge", "w": w, "x": x, "exc": repr(e)[:200]})
  write_ndjson("%s.%d.ndjson" % (prefix, shard), events)
  json.dump(errors, open("%s.%d.err.json" % (prefix, shard), "w"))
  print(json.dumps({"events": len(events), "errors": len(errors)}))


if __name__ == "__main__":
  main()
