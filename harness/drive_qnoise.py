"""Driver for C07.
  mode "sched": replays TLC behaviours of MC_QNoise on a real QNoiseScheduler attached to real models, and records
                real model.fit runs with a recording subclass.
  mode "knob" : replays TLC behaviours of MC_QKnob on real quantizer objects.
usage: drive_qnoise.py <mode> <behaviours.json> <out.ndjson> <tier> <seed>
"""
import json
import random
import sys
import numpy as np
from qk import tf, Q, qkeras, f32
from qkeras import QDense, QActivation
from qkeras.callbacks import QNoiseScheduler
from common import dy, write_ndjson

K = tf.keras.backend


def r20(v):
  return -1 if v is None else int(round(float(v) * (1 << 20)))


def qval(q):
  f = q.qnoise_factor
  return float(f.numpy()) if isinstance(f, tf.Variable) else float(f)


def proj(cb, knobs):
  return {"ni": int(cb.num_iters), "f20": r20(cb.qnoise_factor),
          "qs": [[int(bool(q.built)), int(isinstance(q.qnoise_factor, tf.Variable)), r20(qval(q))] for q in knobs]}


def build_model(kind, f0=1.0):
  """kind 'functional': quantizers are built (float-backed) by model construction; 'deferred': not built yet.
  f0: the noise factor the kernel quantizer is constructed with (0.0 = pre-trained without quantization noise)."""
  d = QDense(2, kernel_quantizer=Q.quantized_bits(4, 0, 1, qnoise_factor=f0), bias_quantizer=Q.ternary(), name="d")
  a = QActivation("quantized_relu(4,1)", name="a")
  if kind == "functional":
    i = tf.keras.layers.Input((3,))
    m = tf.keras.Model(i, a(d(i)))
  else:
    m = tf.keras.Sequential([d, a])
  knobs = [d.kernel_quantizer_internal, a.quantizer]
  return m, knobs


def sched_replay(behaviours, events, shard=0, nshards=1):
  x = f32(np.arange(6).reshape(2, 3) / 4.0)
  for t, b in enumerate(behaviours):
    if t % nshards != shard:
      continue
    sp = b["sp"]
    built0 = [q["built"] for q in b["q0"]]
    m, knobs = build_model("deferred", 0.0 if t % 3 == 1 else 1.0)
    if built0[0]:
      # first knob quantizer already built and float-backed: it was called before training
      knobs[0](tf.constant(f32([0.1, 0.2])))
    cb = QNoiseScheduler(start=sp["start"], finish=sp["finish"], freq_type=sp["type"], update_freq=sp["freq"],
                         initial_step_or_epoch=sp["init"], exponent=float(sp["exponent"]))
    cb.set_model(m)
    ev = {"t": t, "a": "Start", "sp": sp}
    ev.update(proj(cb, knobs))
    events.append(ev)
    for (a, cnt) in b["steps"]:
      if a == "TrainBegin":
        cb.on_train_begin()
      elif a == "EpochBegin":
        cb.on_epoch_begin(cnt[1] - 1)
      elif a == "BatchBegin":
        cb.on_train_batch_begin(cnt[2] - 1)
      elif a == "EpochEnd":
        cb.on_epoch_end(cnt[1] - 1)
      elif a == "TrainEnd":
        cb.on_train_end()
      elif a == "Call":
        m(tf.constant(x))
      ev = {"t": t, "a": a}
      ev.update(proj(cb, knobs))
      events.append(ev)
  return len(behaviours)


class Recording(QNoiseScheduler):
  def __init__(self, sink, tid, knobs, **kw):
    super().__init__(**kw)
    self.sink, self.tid, self.knobs = sink, tid, knobs

  def _log(self, a):
    ev = {"t": self.tid, "a": a}
    ev.update(proj(self, self.knobs))
    self.sink.append(ev)

  def on_train_begin(self, logs=None):
    super().on_train_begin(logs); self._log("TrainBegin")

  def on_epoch_begin(self, epoch, logs=None):
    super().on_epoch_begin(epoch, logs); self._log("EpochBegin")

  def on_train_batch_begin(self, batch, logs=None):
    super().on_train_batch_begin(batch, logs); self._log("BatchBegin")

  def on_epoch_end(self, epoch, logs=None):
    super().on_epoch_end(epoch, logs); self._log("EpochEnd")

  def on_train_end(self, logs=None):
    super().on_train_end(logs); self._log("TrainEnd")


def fit_runs(seed, n, events, t0, shard=0, nshards=1):
  xs = f32(np.random.RandomState(1).uniform(-1, 1, (8, 3)))
  ys = f32(np.random.RandomState(2).uniform(-1, 1, (8, 2)))
  for j in range(n):
    if j % nshards != shard:
      continue
    rnd = random.Random("%d/fit/%d" % (seed, j))
    sp = {"start": rnd.randint(0, 3), "finish": 0, "exponent": rnd.choice([1, 2, 3]), "freq": rnd.randint(1, 3),
          "type": rnd.choice(["step", "epoch"]), "init": rnd.randint(0, 2)}
    sp["finish"] = sp["start"] + rnd.randint(0, 4)
    kind = rnd.choice(["functional", "deferred"])
    m, knobs = build_model(kind, 0.0 if j % 2 == 1 else 1.0)
    m.compile(optimizer="sgd", loss="mse")
    tid = t0 + j
    cb = Recording(events, tid, knobs, start=sp["start"], finish=sp["finish"], freq_type=sp["type"],
                   update_freq=sp["freq"], initial_step_or_epoch=sp["init"], exponent=float(sp["exponent"]))
    cb.set_model(m)
    ev = {"t": tid, "a": "Start", "sp": sp}
    ev.update(proj(cb, knobs))
    events.append(ev)
    for run in range(2):
      m.fit(xs, ys, epochs=rnd.randint(1, 3), batch_size=rnd.choice([4, 8]), verbose=0, callbacks=[cb])
  return n


# ---------------------------------------------------------------------------------------------------------- knob
KNOB_CLASSES = {
    "bits": lambda f, uv, ste: Q.quantized_bits(4, 1, 0, qnoise_factor=f, use_variables=uv, use_ste=ste),
    "relu": lambda f, uv, ste: Q.quantized_relu(4, 1, negative_slope=0.25, qnoise_factor=f, use_variables=uv, use_ste=ste),
    "po2": lambda f, uv, ste: Q.quantized_po2(4, qnoise_factor=f, use_variables=uv, use_ste=ste),
    "relu_po2": lambda f, uv, ste: Q.quantized_relu_po2(4, qnoise_factor=f, use_variables=uv, use_ste=ste),
    "linear": lambda f, uv, ste: Q.quantized_linear(4, 1, qnoise_factor=f, use_variables=uv),
    "bits_auto": lambda f, uv, ste: Q.quantized_bits(4, 1, 1, alpha="auto_po2", qnoise_factor=f, use_variables=uv, use_ste=ste),
    # the h-swish quantizer inherits the knob from quantized_bits: its unquantized activation is x * relu6(x + 3) / 6
    "hswish": lambda f, uv, ste: Q.quantized_hswish(6, 2, 1, qnoise_factor=f, use_variables=uv),
    "bits_auto2": lambda f, uv, ste: Q.quantized_bits(5, 2, 1, alpha="auto", qnoise_factor=f, use_variables=uv, use_ste=ste),
}


ERRORS = []


def knob_replay(behaviours, events, rnd, shard=0, nshards=1):
  x = f32([-3.0, -1.25, -0.4375, -0.0625, 0.0, 0.09375, 0.3125, 0.71875, 1.5, 2.75, 7.0])
  xt = tf.constant(x)
  names = sorted(KNOB_CLASSES)
  for t, b in enumerate(behaviours):
    if t % nshards != shard:
      continue
    cls = names[t % len(names)]
    ste = not (cls in ("bits", "relu", "po2", "relu_po2") and (t // len(names)) % 3 == 2)
    mk = KNOB_CLASSES[cls]
    q = None
    for (a, arg) in b:
      if a == "New":
        f, uv = arg
        q = mk(f[0] / f[1], bool(uv), ste)
        ev = {"t": t, "a": "New", "f": f, "uv": int(uv)}
      elif a == "Build":
        q.build(use_variables=bool(arg))
        ev = {"t": t, "a": "Build", "uv": int(arg)}
      elif a == "Rebuild":
        try:                                   # exactly what QNoiseScheduler.set_quantizers does
          if hasattr(q, "use_variables"):
            q.use_variables = True
          q.build(use_variables=True)
        except Exception as e:
          ERRORS.append({"t": t, "cls": cls, "a": "Rebuild", "exc": repr(e)[:200]})
          break
        ev = {"t": t, "a": "Rebuild"}
      elif a == "Update":
        q.update_qnoise_factor(arg[0] / arg[1])
        ev = {"t": t, "a": "Update", "f": arg}
      elif a == "Call":
        y = q(xt).numpy()
        f = qval(q)
        ys = mk(0.0, False, ste)(xt).numpy()
        yq = mk(1.0, False, ste)(xt).numpy()
        yc = mk(f, False, ste)(xt).numpy()
        sk = {"relu": ("lrelu", 2, 1, dy(1.75)), "relu_po2": ("lrelu", 0, 0, [0, 0])}.get(cls, ("id", 0, 0, [0, 0]))
        sr = [[0, 0]] * len(x)
        if cls == "hswish":       # reference surrogate, same float32 operations in numpy
          sk = ("ref", 0, 0, [0, 0])
          sr = [dy(v) for v in (x * np.minimum(np.maximum(x + np.float32(3.0), np.float32(0.0)), np.float32(6.0))) / np.float32(6.0)]
        ev = {"t": t, "a": "Call", "ste": int(ste or cls in ("linear", "hswish")), "cls": cls,
              "sk": sk[0], "sl": sk[1], "hasb": sk[2], "b": sk[3], "sr": sr,
              "x": [dy(v) for v in x], "y": [dy(v) for v in y], "ys": [dy(v) for v in ys],
              "yq": [dy(v) for v in yq], "yc": [dy(v) for v in yc]}
      ev.update({"built": int(bool(q.built)), "var": int(isinstance(q.qnoise_factor, tf.Variable)), "v20": r20(qval(q)),
                 "cls": cls})
      events.append(ev)
  return len(behaviours)


def main():
  mode, bpath, out, tier, seed = sys.argv[1:6]
  shard, nshards = (int(sys.argv[6]), int(sys.argv[7])) if len(sys.argv) > 7 else (0, 1)
  rnd = random.Random(int(seed))
  behaviours = json.load(open(bpath))
  events = []
  if mode == "sched":
    if shard == 0:
      # long schedules (integer arithmetic must not wrap): the factor at increasing steps
      for j, (start, finish, e) in enumerate([(0, 100000, 5), (10, 70000, 4), (1000, 3000000, 3), (5, 9000, 5)]):
        cb = QNoiseScheduler(start=start, finish=finish, freq_type="step", update_freq=1, exponent=e)
        steps = sorted({0, start, start + 1, (start + finish) // 7, (start + finish) // 3, (start + finish) // 2,
                        finish - finish // 10, finish - 1, finish, finish + 5})
        fs = [r20(cb.calculate_qnoise_factor(st_)) for st_ in steps if st_ <= start or True]
        events.append({"t": 900000 + j, "a": "BigSchedule", "fs": fs})
    sched_replay(behaviours, events, shard, nshards)
    fit_runs(int(seed), 6 if tier == "quick" else 40, events, len(behaviours), shard, nshards)
  else:
    knob_replay(behaviours, events, rnd, shard, nshards)
  n = len({e["t"] for e in events})
  write_ndjson(out, events)
  json.dump(ERRORS, open(out + ".err.json", "w"))
  print(json.dumps({"events": len(events), "traces": n}))


if __name__ == "__main__":
  main()
