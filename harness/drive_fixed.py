"""Driver for C01/C02: evaluates the real fixed-point quantizers on every cell witness of every configuration TLC
enumerated (plus random float32 inputs outside the small lattice) and records exact dyadic events.

usage: drive_fixed.py <cfgs.json> <out_prefix> <tier> <seed> <shard> <nshards>
writes <out_prefix>.<shard>.cfg.json and <out_prefix>.<shard>.ndjson
"""
import json
import random
import sys
import numpy as np
from qk import tf, Q, make_fixed, scalar, call, f32, up, non_sign_bits, step_exp, lo_code
from common import dy, undy, write_ndjson


def cell_inputs(c, rnd, full):
  """float32 inputs realising the quarter-step cells of configuration c (x-space or surrogate-space)."""
  nsb = non_sign_bits(c)
  m = 2 ** nsb
  ge = step_exp(c)
  step = 2.0 ** ge
  lo, hi = lo_code(c), m - 1
  lo_x = lo * (2 ** c["sl"]) if c["cls"] == "relu" and c["sl"] > 0 else lo     # leaky: code k reached at k/slope
  qs = list(range(4 * lo_x - 8, 4 * hi + 9))
  if not full and len(qs) > 160:
    keep = set(qs[:24] + qs[-24:] + [q for q in qs if abs(q) <= 12 or abs(q - 4 * lo) <= 10])
    keep |= set(rnd.sample(qs, 100))
    qs = sorted(keep)
  al = undy(c["al"]) if c["cls"] == "linear" else 1.0
  xs = []
  for q in qs:
    base = q * step / 4.0
    if c.get("sig") == "smooth":          # smooth sigmoid: p = 0.1875*x + 0.5 (tanh: 2p - 1)
      base = ((base + 1.0) / 2.0 - 0.5) / 0.1875 if c["cls"] == "tanh" else (base - 0.5) / 0.1875
    elif c.get("sig") in ("real", "realflag"):   # real sigmoid / tanh: invert the transcendental surrogate
      pb = min(max(base if c["cls"] == "sigmoid" else (base + 1.0) / 2.0, 1e-6), 1.0 - 1e-6)
      base = float(np.log(pb / (1.0 - pb))) * (1.0 if c["cls"] == "sigmoid" or c["sig"] == "real" else 0.5)
    elif c["cls"] == "sigmoid":
      base = 2.0 * base - 1.0
    base *= al
    b = f32(base)
    xs += [b, up(b, 1), up(b, -1), f32(base + al * step / 8.0 * (2.0 if c["cls"] == "sigmoid" else 1.0))]
  big = (2.0 ** 24 - 3) * step * al
  xs += [0.0, -0.0, 1e-45, -1e-45, 2.0 ** -126, -2.0 ** -126, 2.0 ** -100, -2.0 ** -100, big, -big, big / 2 + step / 2,
         1.5, -1.5, 1.0, -1.0, 100.0, -100.0]
  return np.asarray(xs, dtype=np.float32)


def random_inputs(c, rnd, n):
  ge = step_exp(c)
  step = 2.0 ** ge
  m = 2 ** non_sign_bits(c)
  span = m * step
  out = []
  for _ in range(n):
    k = rnd.random()
    if k < 0.4:
      v = rnd.gauss(0, span / 2)
    elif k < 0.7:
      v = rnd.uniform(-2 * span, 2 * span)
    elif k < 0.85:
      v = rnd.choice([-1, 1]) * step * 2.0 ** rnd.uniform(-30, 23.9)
    else:
      v = (rnd.randint(-4 * m, 4 * m) + 0.5) * step / rnd.choice([1, 2, 4])        # ties and near-ties
      v = float(up(v, rnd.choice([-2, -1, 0, 0, 1, 2])))
    out.append(v)
  return np.asarray(out, dtype=np.float32)


def main():
  cfgs_path, prefix, tier, seed, shard, nshards = sys.argv[1:7]
  seed, shard, nshards = int(seed), int(shard), int(nshards)
  cfgs = json.load(open(cfgs_path))
  mine = [c for j, c in enumerate(cfgs) if j % nshards == shard]
  rnd = random.Random(seed * 1000 + shard)
  events = []
  errors = []
  for ci, c in enumerate(mine):
    try:
      if c.get("hist") == "reassign":
        if c["cls"] == "linear":            # bits / integer are read-only there; symmetric is a plain settable attribute
          q = make_fixed(dict(c, sym=1 - c["sym"]))
          call(q, f32([0.3, -0.7, 5.0]))
          q.symmetric = c["sym"]
        else:
          q = make_fixed(dict(c, bits=c["bits"] + 1, int=c["int"] + 1))
          call(q, f32([0.3, -0.7, 5.0]))
          q.bits = c["bits"]
          q.integer = c["int"]
      elif c.get("hist") == "mode_after":
        # the internal sigmoid is a global of the library that is read at call time: a quantizer built (and called)
        # under the default mode has to follow a later set_internal_sigmoid()
        q = make_fixed(c)
        call(q, f32([0.3, -0.7, 5.0]))
        Q.set_internal_sigmoid(c["sig"])
      elif c.get("hist") == "mode_before":
        Q.set_internal_sigmoid(c["sig"])
        q = make_fixed(c)
      elif c.get("sig") == "realflag":      # use_real_sigmoid / use_real_tanh bypass the library-wide mode
        # (given as True or as the integer 1 - the form str(q) prints and a quantizer string produces)
        flag = True if ci % 2 else 1
        q = make_fixed(c, **({"use_real_tanh": flag} if c["cls"] == "tanh" else {"use_real_sigmoid": flag}))
      else:
        q = make_fixed(c)
      full = (tier == "thorough") or c["bits"] <= 5
      x = np.concatenate([cell_inputs(c, rnd, full), random_inputs(c, rnd, 200 if tier == "quick" else 2000)])
      x = np.sort(x)
      shape = rnd.choice([(-1,), (1, -1), (-1, 1), (1, 1, -1)])
      y = call(q, x.reshape(shape)).reshape(-1)
      yy = call(q, y.reshape(shape)).reshape(-1)
      mn, mx = scalar(q.min()), scalar(q.max())
      sv = None
      if c.get("sig") in ("real", "realflag"):
        # the transcendental surrogate is not transcribed: its value comes from the same TF kernel on the same tensor
        # (sigmoid for the library-wide mode and use_real_sigmoid, tanh for use_real_tanh); everything after it is
        # judged exactly
        xt = tf.constant(x.reshape(shape))
        sv = (tf.tanh(xt) if (c["sig"] == "realflag" and c["cls"] == "tanh") else tf.sigmoid(xt)).numpy().reshape(-1)
      if ci % 5 == shard % 5:
        # the same values handed over as float64 / as a plain nested list: the quantizer casts to floatx first
        alt = np.asarray(q(tf.constant(x.reshape(shape).astype(np.float64))), dtype=np.float64).reshape(-1)
        if not np.array_equal(alt.astype(np.float32), y) or not np.all(alt == alt.astype(np.float32)):
          errors.append({"k": "float64_input_differs", "c": ci + 1})
    except Exception as e:  # a configuration of the lattice must not raise
      errors.append({"k": "exc", "c": ci + 1, "exc": repr(e)[:300]})
      Q.set_internal_sigmoid("hard")
      continue
    finally:
      pass
    dmn, dmx = dy(mn), dy(mx)
    for j, (a, b, d) in enumerate(zip(x, y, yy)):
      if not (np.isfinite(b) and np.isfinite(d)):
        errors.append({"k": "nonfinite", "c": ci + 1, "x": float(a)})
        continue
      ev = {"k": "call", "c": ci + 1, "x": dy(a), "y": dy(b), "yy": dy(d), "mn": dmn, "mx": dmx}
      if sv is not None:
        ev["s"] = dy(sv[j])
      events.append(ev)
    # range() reporter
    try:
      if not hasattr(q, "range"):
        raise AssertionError
      r = q.range()
      r = np.asarray(r.numpy() if hasattr(r, "numpy") else r, dtype=np.float64).reshape(-1)
      if len(r) <= 512:
        events.append({"k": "range", "c": ci + 1, "vals": [dy(v) for v in r]})
    except AssertionError:
      pass                                  # documented: range() is defined for a subset of configurations
    except Exception as e:                  # any other exception of the reporter is the library's, not the driver's
      errors.append({"k": "range_raises", "c": ci + 1, "exc": repr(e)[:300]})
    Q.set_internal_sigmoid("hard")
  json.dump(mine, open("%s.%d.cfg.json" % (prefix, shard), "w"))
  write_ndjson("%s.%d.ndjson" % (prefix, shard), events)
  json.dump(errors, open("%s.%d.err.json" % (prefix, shard), "w"))
  print(json.dumps({"events": len(events), "cfgs": len(mine), "errors": len(errors)}))


if __name__ == "__main__":
  main()
