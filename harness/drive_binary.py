"""Driver for C04: real binary / ternary quantizers on the grouping lattice emitted by MC_QGroup, with grid data
(exact least-squares sums) and free float32 data.

usage: drive_binary.py <cases.json> <out_prefix> <tier> <seed> <shard> <nshards>
cases: list of {"shape": [...], "sa": [...], "eps": [...]}
"""
import json
import random
import sys
import numpy as np
from qk import tf, Q, call, f32
from common import dy, write_ndjson

GRIDS = [-20, -17, -14, -10, -6, -3, 0, 3, 7, 10, 14]


def grid_data(rnd, shape, g):
  n = np.array([rnd.randint(-31, 31) for _ in range(int(np.prod(shape)))], dtype=np.int64).reshape(shape)
  k = rnd.random()
  if k < 0.15:                      # a zero channel / zero slice
    idx = [slice(None)] * len(shape)
    idx[-1] = rnd.randrange(shape[-1])
    n[tuple(idx)] = 0
  elif k < 0.3:                     # per-last-axis magnitude ramp (groups with clearly different scales)
    ramp = np.array([1 + (j * 7) % 5 for j in range(shape[-1])])
    n = np.clip(n // 4 * ramp, -31, 31)
  return n, (n.astype(np.float64) * 2.0 ** g).astype(np.float32)


def free_data(rnd, shape):
  k = rnd.random()
  size = int(np.prod(shape))
  if k < 0.5:
    x = np.array([rnd.gauss(0, 1) * 10 ** rnd.uniform(-6, 6) for _ in range(size)])
  elif k < 0.8:
    x = np.array([rnd.uniform(-2, 2) for _ in range(size)])
  else:
    x = np.array([rnd.choice([0.0, -0.0, 0.33, -0.33, 0.5, 1e-6, -1e6, 1.0]) for _ in range(size)])
  return x.astype(np.float32).reshape(shape)


def record(events, errors, q, meta, n, x, surrogate_tanh):
  try:
    y = call(q, x)
    s = q.scale
    if isinstance(s, (tf.Tensor, tf.Variable)):
      s = s.numpy()
    s = np.broadcast_to(np.asarray(s, dtype=np.float32), x.shape)
    xs = tf.tanh(tf.constant(x)).numpy() if surrogate_tanh else x
  except Exception as e:
    errors.append({"k": "exc", "meta": meta, "exc": repr(e)[:300]})
    return
  if not (np.all(np.isfinite(y)) and np.all(np.isfinite(s))):
    errors.append({"k": "nonfinite", "meta": meta})
    return
  ev = dict(meta)
  ev["args"] = json.dumps(meta.get("args", {}))          # TLC's Json module has no null
  ev["n"] = [int(v) for v in np.asarray(n).reshape(-1)] if n is not None else [0] * x.size
  ev["x"] = [dy(v) for v in x.reshape(-1)]
  ev["xs"] = [dy(v) for v in np.asarray(xs).reshape(-1)]
  ev["y"] = [dy(v) for v in y.reshape(-1)]
  ev["s"] = [dy(v) for v in s.reshape(-1)]
  events.append(ev)


def axis_arg(sa, rnd):
  if not sa:
    return None
  if len(sa) == 1 and rnd.random() < 0.5:
    return sa[0]
  return list(sa)


def main():
  cases_path, prefix, tier, seed, shard, nshards = sys.argv[1:7]
  seed, shard, nshards = int(seed), int(shard), int(nshards)
  cases = json.load(open(cases_path))
  mine = [c for j, c in enumerate(cases) if j % nshards == shard]
  rnd = random.Random(seed * 1000 + shard)
  events, errors = [], []
  reps = 1 if tier == "quick" else 4
  for c in mine:
    shape, sa, eps = c["shape"], c["sa"], c["eps"]
    for _ in range(reps):
      for ak in ("auto", "auto_po2"):
        use01 = rnd.random() < 0.3
        g = rnd.choice(GRIDS)
        bounds = rnd.choice([(None, None), (None, None), (g + 2, None), (None, g + 3), (g + 1, g + 4), (g - 3, g + 8),
                             (0, None), (None, 0), (0, 0)]) \
            if ak == "auto_po2" else (None, None)
        sa_arg = axis_arg(sa, rnd)
        if eps:
          eps_arg = eps[0] if (isinstance(sa_arg, int) or (len(set(eps)) == 1 and rnd.random() < 0.5)) else list(eps)
        else:
          eps_arg = None
        meta = {"cls": "binary", "use01": int(use01), "ak": ak, "al": [1, 0], "thr": [0, 0], "shape": shape, "sa": sa,
                "eps": eps, "hasmin": int(bounds[0] is not None), "minp": bounds[0] or 0,
                "hasmax": int(bounds[1] is not None), "maxp": bounds[1] or 0, "g": g,
                "args": {"scale_axis": sa_arg, "elements_per_scale": eps_arg}}
        mk = lambda: Q.binary(use_01=use01, alpha=ak, scale_axis=sa_arg, elements_per_scale=eps_arg,
                              min_po2_exponent=bounds[0], max_po2_exponent=bounds[1])
        n, x = grid_data(rnd, shape, g)
        record(events, errors, mk(), meta, n, x, False)
        if rnd.random() < 0.5:
          record(events, errors, mk(), dict(meta, g=999), None, free_data(rnd, shape), False)
        if not sa and not eps and len(shape) >= 2 and rnd.random() < 0.5:
          # module-level state: under image_data_format 'channels_first' the default scale is per FIRST axis
          tf.keras.backend.set_image_data_format("channels_first")
          try:
            record(events, errors, mk(), dict(meta, sa=[0], df="channels_first"), n, x, False)
          finally:
            tf.keras.backend.set_image_data_format("channels_last")
    # default grouping only: ternary (all scale modes), binary constant / no scale
    if not sa and not eps:
      for ak in ("auto", "auto_po2", "none", "const"):
        g = rnd.choice(GRIDS)
        al = rnd.choice([0.5, 2.0, 1.0, 0.75]) if ak == "const" else 1.0
        thr = rnd.choice([None, 0.5, 0.1, 0.33, 0.0]) if ak in ("none", "const") else None   # 0.0 is a threshold too
        thr32 = float(np.float32(0.33 if thr is None else thr))
        alpha = {"auto": "auto", "auto_po2": "auto_po2", "none": None, "const": al}[ak]
        meta = {"cls": "ternary", "use01": 0, "ak": ak, "al": dy(al), "thr": dy(thr32), "shape": shape, "sa": [],
                "eps": [], "hasmin": 0, "minp": 0, "hasmax": 0, "maxp": 0, "g": g, "args": {"threshold": thr}}
        n, x = grid_data(rnd, shape, g if ak in ("auto", "auto_po2") else -5)
        if ak in ("none", "const"):
          meta["g"] = -5
        record(events, errors, Q.ternary(alpha=alpha, threshold=thr), meta, n, x, ak == "none")
        record(events, errors, Q.ternary(alpha=alpha, threshold=thr), dict(meta, g=999), None, free_data(rnd, shape),
               ak == "none")
        if ak in ("auto", "auto_po2"):
          # an iteration cut short (1 or 2 unrolls): the exposed scale is still the least-squares optimum of the codes
          # that are emitted, whatever threshold the iteration stopped at
          for u in (1, 2):
            record(events, errors, Q.ternary(alpha=alpha, number_of_unrolls=u), dict(meta, args={"number_of_unrolls": u}), n, x, False)
        # the stochastic classes at inference ARE binary / ternary (same codes, same scale)
        sbm = dict(meta, cls="binary", use01=0, args={"stochastic_class": 1})
        record(events, errors, Q.stochastic_binary(alpha=alpha), sbm, n, x, ak == "none")
        if ak in ("auto", "auto_po2"):
          record(events, errors, Q.stochastic_ternary(alpha=alpha), dict(meta, args={"stochastic_class": 1}), n, x, False)
        if ak in ("none", "const"):
          use01 = rnd.random() < 0.5
          bm = dict(meta, cls="binary", use01=int(use01), args={})
          record(events, errors, Q.binary(use_01=use01, alpha=alpha), bm, n, x, ak == "none")
          record(events, errors, Q.binary(use_01=use01, alpha=alpha), dict(bm, g=999), None, free_data(rnd, shape),
                 ak == "none")
  write_ndjson("%s.%d.ndjson" % (prefix, shard), events)
  json.dump(errors, open("%s.%d.err.json" % (prefix, shard), "w"))
  print(json.dumps({"events": len(events), "cases": len(mine), "errors": len(errors)}))


if __name__ == "__main__":
  main()
