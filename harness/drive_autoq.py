"""Driver for C20: AutoQKHyperModel.quantize_model with a stub tuner on the reference model of AutoQ.tla, and the
forgiving factor.

usage: drive_autoq.py <unused> <out_prefix> <tier> <seed> <shard> <nshards>
"""
import itertools
import json
import random
import sys
import numpy as np
from qk import tf, Q, qkeras
from qkeras.autoqkeras.autoqkeras_internal import AutoQKHyperModel
import importlib
FFmod = importlib.import_module('qkeras.autoqkeras.forgiving_metrics.forgiving_factor')
import sys as _s
FFmod = _s.modules['qkeras.autoqkeras.forgiving_metrics.forgiving_factor']
from qkeras.autoqkeras.forgiving_metrics.forgiving_bits import ForgivingFactorBits
from common import dy, write_ndjson

L = tf.keras.layers
K_ = {"b": "binary", "t": "ternary", "q4": "quantized_bits(4,0,1)", "q8": "quantized_bits(8,0,1)"}
B_ = {"q4": "quantized_bits(4,0,1)", "q8": "quantized_bits(8,3,1)", "p8": "quantized_po2(8,8)"}
A_ = {"b": "binary", "r3": "quantized_relu(3,1)", "r4": "quantized_relu(4,2)", "r8": "quantized_relu(8,4)"}
BITS = {"kernel": {"b": 1, "t": 2, "q4": 4, "q8": 8}, "bias": {"q4": 4, "q8": 8, "p8": 8}, "activation": {"b": 1, "r3": 3, "r4": 4, "r8": 8}}
TABLE = {"kernel": {K_[k]: v for k, v in BITS["kernel"].items()}, "bias": {B_[k]: v for k, v in BITS["bias"].items()},
         "activation": {A_[k]: v for k, v in BITS["activation"].items()}, "linear": {"quantized_bits(8,3,1)": 8}}
SYM = {"kernel": {v: k for k, v in K_.items()}, "bias": {v: k for k, v in B_.items()}, "activation": {v: k for k, v in A_.items()}}
LIMIT = {"Conv2D": [4, 8, 4], "Activation": [8, 8, 3], "^dense": [2, 4, 8]}
NAMES = ["conv_a", "conv_b", "act", "dense_x", "dense_y"]


def ref_model():
  i = L.Input((6, 6, 2), name="input")
  x = L.Conv2D(3, (2, 2), activation="relu", name="conv_a")(i)
  x = L.Conv2D(2, (2, 2), use_bias=False, name="conv_b")(x)
  x = L.Activation("relu", name="act")(x)
  x = L.Flatten(name="flat")(x)
  x = L.Dense(4, name="dense_x")(x)
  x = L.Dense(3, activation="softmax", name="dense_y")(x)
  return tf.keras.Model(i, x)


class StubHP:
  """Answers every tuner call from a plan {(slot, role): symbolic name} and records the calls."""

  def __init__(self, plan):
    self.plan, self.calls = plan, []

  def _slot(self, name):
    base = name[:-len("_quantizer")]
    for role in ("kernel", "bias", "activation"):
      if base.endswith("_" + role):
        slot = base[:-len(role) - 1]
        return ("dense_group" if slot == "^dense" else slot), role
    raise ValueError(name)

  def Choice(self, name, values, default=None, **kw):
    if name.startswith("network_filters"):
      return 1.0
    slot, role = self._slot(name)
    syms = [SYM[role].get(v, "other:" + str(v)) for v in values]
    want = self.plan.get((slot, role))
    chosen = want if want in syms else syms[0]
    self.calls.append({"slot": slot, "role": role, "values": syms, "chosen": chosen})
    return values[syms.index(chosen)]

  def Fixed(self, name, value, **kw):
    slot, role = self._slot(name)
    s = SYM[role].get(value, "other:" + str(value))
    self.calls.append({"slot": slot, "role": role, "values": [s], "chosen": s})
    return value


def sym_of(role, q):
  if q is None:
    return "none"
  s = str(q)
  for k, v in {"kernel": K_, "bias": B_, "activation": A_}[role].items():
    for cls in (qkeras.QDense, None):
      try:
        ref = str(qkeras.QDense(2, **{role + "_quantizer": v}).__dict__[role + "_quantizer_internal"]) if role != "activation" else str(Q.get_quantizer(v))
      except Exception:
        ref = str(Q.get_quantizer(v))
      if ref == s:
        return k
  return "other:" + s[:40]


_SYM_CACHE = {}


def project(qm):
  res = []
  for n in NAMES:
    lay = qm.get_layer(n)
    cls = lay.__class__.__name__
    r = {"name": n, "cls": cls, "kernel": "none", "bias": "none", "activation": "keep"}
    if cls in ("QConv2D", "QDense"):
      for role, attr in (("kernel", "kernel_quantizer_internal"), ("bias", "bias_quantizer_internal")):
        q = getattr(lay, attr)
        key = (role, str(q))
        if key not in _SYM_CACHE:
          _SYM_CACHE[key] = sym_of(role, q)
        r[role] = _SYM_CACHE[key]
      a = lay.activation
      if a is not None and not hasattr(a, "__name__"):
        key = ("activation", str(a))
        if key not in _SYM_CACHE:
          _SYM_CACHE[key] = sym_of("activation", a)
        r["activation"] = _SYM_CACHE[key]
    elif cls == "QActivation":
      key = ("activation", str(lay.quantizer))
      if key not in _SYM_CACHE:
        _SYM_CACHE[key] = sym_of("activation", lay.quantizer)
      r["activation"] = _SYM_CACHE[key]
    res.append(r)
  return res


def offered(slot_key, role):
  lim = {"Conv2D": [4, 8, 4], "Activation": [8, 8, 3], "dense_group": [2, 4, 8]}[slot_key]
  return [k for k, v in BITS[role].items() if v <= lim[{"kernel": 0, "bias": 1, "activation": 2}[role]]]


def main():
  _, prefix, tier, seed, shard, nshards = sys.argv[1:7]
  seed, shard, nshards = int(seed), int(shard), int(nshards)
  rnd = random.Random(seed * 1000 + shard)
  events, errors = [], []
  slots = [("conv_a", "kernel", "Conv2D"), ("conv_a", "bias", "Conv2D"), ("conv_a", "activation", "Conv2D"),
           ("conv_b", "kernel", "Conv2D"), ("act", "activation", "Activation"),
           ("dense_group", "kernel", "dense_group"), ("dense_group", "bias", "dense_group")]
  plans = list(itertools.product(*[offered(k, r) for _, r, k in slots]))
  idxs = [None, [1, 3], [2, 5, 6], []]        # positions in model.layers (0 = InputLayer, 4 = Flatten)
  cases = [(p, ix) for p in plans for ix in idxs]
  rnd2 = random.Random(seed)
  if tier == "quick":
    cases = rnd2.sample(cases, 280)
  target = ForgivingFactorBits(8, 8, 2, config={"default": ["parameters", "activations"]})
  for j, (plan, ix) in enumerate(cases):
    if j % nshards != shard:
      continue
    try:
      m = ref_model()
      hm = AutoQKHyperModel(m, metrics=["acc"], target=target, limit=dict({k: list(v) for k, v in LIMIT.items()}),
                            layer_indexes=ix, quantization_config=TABLE, tune_filters="none", tune_filters_exceptions="")
      hp = StubHP({(s, r): c for (s, r, _), c in zip(slots, plan)})
      qm, _ = hm.quantize_model(hp)
      layer_pos = {n: [l.name for l in m.layers].index(n) for n in NAMES}
      sel = [k + 1 for k, n in enumerate(NAMES) if ix is None or layer_pos[n] in ix]
      arch = int(len(qm.layers) == len(m.layers) and all(
          a.name == b.name and tuple(a.output.shape) == tuple(b.output.shape) and
          [tuple(w.shape) for w in a.get_weights()] == [tuple(w.shape) for w in b.get_weights()]
          for a, b in zip(m.layers, qm.layers)))
      events.append({"kind": "trial", "idx": sel, "calls": hp.calls, "res": project(qm), "arch": arch})
    except Exception as e:
      errors.append({"k": "exc", "plan": list(plan), "idx": ix, "exc": repr(e)[:300]})
  # forgiving factor: zero / sign / strict order on series of trial sizes; size model on real (trial) models
  if shard == 0:
    # (the last parameter set is steep enough for the bonus to pass -100 %: the law has no floor)
    for series, (dp, dn, rate, ref) in enumerate([(8, 8, 2.0, 1000), (5, 12, 4.0, 4096), (8, 8, 2.0, 37), (8, 60, 1.5, 512)]):
      ff = FFmod.ForgivingFactor(dp, dn, rate)
      ff.reference_size = np.float32(ref)
      for trial in sorted({max(1, ref // 8), ref // 4, ref // 2, ref - 1, ref, ref + 1, 2 * ref, 4 * ref, 9 * ref}):
        ff.trial_size = np.float32(trial)
        d = float(ff.delta())
        events.append({"kind": "delta", "series": series, "ref": int(ref), "trial": int(trial),
                       "sign": int(np.sign(d)), "delta": dy(np.float32(d))})
    # sizes as the library itself stores them (integer bit counts from compute_model_size), large enough that a
    # trial differing by a few bits is only told apart in double precision
    ff = FFmod.ForgivingFactor(8, 8, 2.0)
    ref = 33570824
    ff.reference_size = np.int64(ref)
    for trial in (ref // 4, ref - 3, ref - 1, ref, ref + 1, ref + 2, 2 * ref):
      ff.trial_size = np.int64(trial)
      d = float(ff.delta())
      events.append({"kind": "delta", "series": 4, "ref": int(ref), "trial": int(trial), "sign": int(np.sign(d)), "delta": dy(np.float32(d))})
    m = ref_model()
    hm = AutoQKHyperModel(m, metrics=["acc"], target=target, limit=dict({k: list(v) for k, v in LIMIT.items()}),
                          layer_indexes=None, quantization_config=TABLE, tune_filters="none", tune_filters_exceptions="")
    nsize = 0                               # every selection table meets every kind of model
    for plan in rnd2.sample(plans, 6):
      for manual in (0, 1, 2):
        nsize += 1 if manual else 2         # (7 tables per plan: the assignment of tables to model kinds rotates)
        hp = StubHP({(s, r): c for (s, r, _), c in zip(slots, plan)})
        hm.groups = {}                      # as AutoQKHyperModel.build does before every trial
        qm, _ = hm.quantize_model(hp)
        if manual == 1:
          # a quantized layer whose bias is NOT quantized: the reference width applies to that tensor
          i2 = L.Input((5,))
          qm = tf.keras.Model(i2, qkeras.QDense(3, kernel_quantizer="quantized_bits(4,0,1)", bias_quantizer=None, name="dq")(i2))
        elif manual == 2:
          # a hand-written quantized model whose activation layers were given quantizer OBJECTS instead of strings
          i2 = L.Input((5,))
          x2 = qkeras.QDense(3, kernel_quantizer="quantized_bits(4,0,1)", bias_quantizer="quantized_bits(4,0,1)", name="dq")(i2)
          x2 = qkeras.QActivation(qkeras.quantized_relu(3, 1), name="aq")(x2)
          x2 = qkeras.QDense(2, kernel_quantizer=qkeras.ternary(), bias_quantizer=None, name="dq2")(x2)
          qm = tf.keras.Model(i2, qkeras.QActivation(qkeras.quantized_bits(5, 1, 1), name="aq2")(x2))
        # per-class component selection: an explicitly empty list switches a class off, "parameters" only counts weights
        cfgsel = [{"default": ["parameters", "activations"]},
                  {"default": ["parameters", "activations"], "InputLayer": [], "QActivation": [], "Activation": []},
                  {"default": ["parameters"], "QDense": ["parameters", "activations"], "Dense": ["parameters", "activations"]}][nsize % 3]
        tb = ForgivingFactorBits(8, 8, 2, config=cfgsel)
        try:
          total = tb.compute_model_size(qm)[0]
        except Exception as e:           # the size of a valid quantized model has to be reported
          errors.append({"k": "size_raises", "manual": int(manual), "exc": repr(e)[:300]})
          continue
        elems, bits = [], []
        for lay in qm.layers:
          cls = lay.__class__.__name__
          sel = cfgsel.get(cls, cfgsel["default"])
          e0, b0 = len(elems), len(bits)
          if cls in ("QConv2D", "QDense"):
            for q, w in zip(lay.get_quantizers(), lay.get_weights()):
              elems.append(int(np.prod(w.shape)))
              bits.append(int(q.bits) if q is not None else 8)
            a = lay.activation
            out = int(np.prod(lay.output.shape[1:]))
            if a is None or getattr(a, "__name__", "") == "linear":
              pass
            elif getattr(a, "__name__", "") == "softmax":
              elems.append(out); bits.append(8)
            else:
              elems.append(out); bits.append(int(getattr(a, "bits", 8)))
          elif cls in ("Conv2D", "Dense"):
            for w in lay.get_weights():
              elems.append(int(np.prod(w.shape))); bits.append(8)
            a = lay.activation
            if a is not None and a.__name__ != "linear":
              elems.append(int(np.prod(lay.output.shape[1:]))); bits.append(8)
          elif cls in ("QActivation", "Activation"):
            a = lay.activation if cls == "Activation" else lay.quantizer
            nm = getattr(a, "__name__", "")
            out = int(np.prod(lay.output.shape[1:]))
            if nm == "linear":
              pass
            elif nm in ("softmax", "sigmoid"):
              elems.append(out); bits.append(8)
            else:
              elems.append(out); bits.append(int(getattr(a, "bits", 8)))
          elif cls == "InputLayer":
            elems.append(int(np.prod(lay.output.shape[1:]))); bits.append(8)
          # keep only the selected components of this layer (weights come first, the activation tensor last)
          nw = len(lay.get_weights()) if cls in ("QConv2D", "QDense", "Conv2D", "Dense") else 0
          we, wb, ae, ab = elems[e0:e0 + nw], bits[b0:b0 + nw], elems[e0 + nw:], bits[b0 + nw:]
          del elems[e0:], bits[b0:]
          if "parameters" in sel:
            elems += we; bits += wb
          if "activations" in sel:
            elems += ae; bits += ab
        events.append({"kind": "size", "total": int(total), "elems": elems, "bits": bits, "manual": int(manual)})
  # the whole pipeline: hm.build(hp) on a compiled reference model -> trial size -> bonus -> score / trial_size metrics
  if shard == 1 % nshards:
    yt = tf.constant([[1., 0, 0], [0, 1, 0], [0, 0, 1], [1, 0, 0], [0, 1, 0]])
    yp = tf.constant([[.9, .1, 0], [.8, .1, .1], [0, 0, 1], [0, 1, 0], [.2, .7, .1]])
    mvec = [1, 0, 1, 0, 1]
    for plan in rnd2.sample(plans, 5):
      for stress in (1.0, 0.25):
        m = ref_model()
        m.compile(optimizer="sgd", loss="categorical_crossentropy", metrics=["acc"])
        tb = ForgivingFactorBits(8, 8, 2, stress=stress, config={"default": ["parameters", "activations"]})
        hm = AutoQKHyperModel(m, metrics=["acc"], target=tb, limit=dict({k: list(v) for k, v in LIMIT.items()}),
                              layer_indexes=None, quantization_config=TABLE, tune_filters="none", tune_filters_exceptions="")
        hp = StubHP({(s, r): c for (s, r, _), c in zip(slots, plan)})
        hm.build(hp)
        d = float(tb.delta())
        sc = hm.score(yt, yp).numpy()
        ts = float(hm.trial_size_metric(hm.trial_size)(yt, yp).numpy())
        # the reference the bonus is computed against: stress x size of the reference model (sized by a fresh target)
        refexp = stress * float(ForgivingFactorBits(8, 8, 2, stress=1.0, config={"default": ["parameters", "activations"]}).compute_model_size(m)[0])
        events.append({"kind": "score", "ref": int(round(float(tb.reference_size))), "refexp": int(round(refexp)),
                       "trial": int(tb.trial_size), "sign": int(np.sign(d)),
                       "d32": dy(np.float32(d)), "m": mvec, "score": [dy(v) for v in sc], "trialsize": int(ts)})
  for ev in events:
    for k, v in (("arch", 1), ("d32", [0, 0]), ("m", []), ("score", []), ("trialsize", 0), ("idx", []), ("calls", []), ("res", []), ("ref", 0), ("refexp", -1), ("trial", 0), ("sign", 0), ("delta", [0, 0]), ("series", 0),
                 ("total", 0), ("elems", []), ("bits", [])):
      ev.setdefault(k, v)
  write_ndjson("%s.%d.ndjson" % (prefix, shard), events)
  json.dump(errors, open("%s.%d.err.json" % (prefix, shard), "w"))
  print(json.dumps({"events": len(events), "errors": len(errors)}))


if __name__ == "__main__":
  main()
