"""Driver for C05: quantized_bits / quantized_linear with data-derived scales on random tensors of rank 1-4.

usage: drive_auto.py <unused> <out_prefix> <tier> <seed> <shard> <nshards>
"""
import json
import random
import sys
import numpy as np
from qk import tf, Q, call, f32
from common import dy, write_ndjson

SHAPES = [(4,), (6,), (1,), (2, 3), (4, 4), (6, 2), (1, 5), (3, 2, 4), (2, 2, 2), (2, 2, 2, 4), (1, 3, 3, 2)]


def data(rnd, shape, g):
  size = int(np.prod(shape))
  k = rnd.random()
  if k < 0.4:
    x = np.array([rnd.gauss(0, 1) for _ in range(size)])
  elif k < 0.7:
    x = np.array([rnd.uniform(-1, 1) * rnd.choice([1, 1, 1, 30]) for _ in range(size)])
  else:
    x = np.array([rnd.randint(-40, 40) / 8.0 for _ in range(size)])
  x = x.reshape(shape)
  zero = False
  if rnd.random() < 0.2 and len(shape) >= 1:
    idx = [slice(None)] * len(shape)
    idx[-1] = rnd.randrange(shape[-1])
    x[tuple(idx)] = 0.0
    zero = True
  return (x * 2.0 ** g).astype(np.float32), zero


STALE = []


def scale_of(q, x, linear):
  s = q.scale
  if isinstance(s, (tf.Tensor, tf.Variable)):
    s = s.numpy()
  s = np.broadcast_to(np.asarray(s, dtype=np.float32), x.shape)
  if linear:
    qs = q.quantization_scale
    qs = qs.numpy() if hasattr(qs, "numpy") else qs
    qs = np.broadcast_to(np.asarray(qs, dtype=np.float32), x.shape)
    # the exposed scale is the scale of the LAST call: quantization_scale / data_type_scale
    dts = q.data_type_scale
    dts = np.asarray(dts.numpy() if hasattr(dts, "numpy") else dts, dtype=np.float32)
    if not np.array_equal(s, (qs / dts).astype(np.float32)):
      STALE.append(1)
  else:
    qs = s
  return s, qs


def main():
  _, prefix, tier, seed, shard, nshards = sys.argv[1:7]
  seed, shard, nshards = int(seed), int(shard), int(nshards)
  rnd = random.Random(seed * 1000 + shard)
  events, errors = [], []
  ncases = (60 if tier == "quick" else 600)
  for case in range(ncases):
    shape = rnd.choice(SHAPES)
    rank = len(shape)
    cls = rnd.choice(["bits", "bits", "linear"])
    ak = rnd.choice(["auto", "auto_po2", "auto_po2", "pts"]) if cls == "bits" else rnd.choice(["auto", "auto_po2"])
    bits = rnd.randint(2, 8)
    integer = rnd.choice([0, 0, 1, 2])
    kn = 1 if cls == "bits" else rnd.choice([1, 1, 0])
    g = rnd.choice([-19, -12, -8, -4, -1, 0, 2, 5, 9, 14, 19])
    # grouping
    sa_spec, eps_spec, sa_arg, eps_arg = [], [], None, None
    if rank > 1 and rnd.random() < 0.5:
      a = rnd.randrange(rank)
      sa_spec, sa_arg = [a], a
      if cls == "bits" and rnd.random() < 0.4:
        b = rnd.randrange(rank)
        if b != a:
          sa_spec = sorted([a, b])
          sa_arg = list(sa_spec)
      if cls == "bits" and ak in ("auto_po2",) and rnd.random() < 0.5:
        eps_spec = [rnd.choice([e for e in (1, 2, 3) if shape[ax] % e == 0]) for ax in sa_spec]
        if isinstance(sa_arg, int):
          eps_arg = eps_spec[0]
        else:
          eps_arg = list(eps_spec)
    if rank == 1:
      # legacy auto: one scale for the whole vector; auto_po2 / quantized_linear: one scale per element
      sa_spec = [-1] if (cls == "bits" and ak == "auto") else []
    bounds = (None, None)
    if cls == "bits" and ak == "auto_po2" and rnd.random() < 0.4:
      bounds = rnd.choice([(g - 6, None), (None, g - 3), (g - 5, g - 2), (g - 12, g + 6),
                           (0, None), (None, 0), (0, 0), (0, 3), (-3, 0)])      # a bound of exactly 0 is a bound too
    k = 0
    if bounds == (None, None) and g >= -4 and rnd.random() < 0.6:
      k = rnd.choice([-3, -1, 2, 5])
    x, zero = data(rnd, shape, g)
    meta = {"cls": cls, "bits": bits, "int": integer, "kn": kn, "sym": 1, "ak": ak, "shape": list(shape),
            "sa": sa_spec, "eps": eps_spec, "hasmin": int(bounds[0] is not None), "minp": bounds[0] or 0,
            "hasmax": int(bounds[1] is not None), "maxp": bounds[1] or 0, "k": k, "zero_group": zero,
            "args": json.dumps({"scale_axis": sa_arg, "elements_per_scale": eps_arg, "g": g})}

    def make(pts=None):
      if cls == "bits":
        return Q.quantized_bits(bits, integer, keep_negative=bool(kn), alpha="auto_po2" if ak == "pts" else ak,
                                scale_axis=sa_arg, elements_per_scale=eps_arg, min_po2_exponent=bounds[0],
                                max_po2_exponent=bounds[1], post_training_scale=pts)
      return Q.quantized_linear(bits, integer, keep_negative=bool(kn), alpha=ak, scale_axis=sa_arg)

    # module-level state: under image_data_format 'channels_first' the default scale of quantized_bits is per FIRST axis
    cfirst = cls == "bits" and not sa_spec and rank >= 2 and ak in ("auto", "auto_po2") and not k and rnd.random() < 0.3
    if cfirst:
      tf.keras.backend.set_image_data_format("channels_first")
      meta["sa"] = [0]
      meta["df"] = "channels_first"
    try:
      q = make()
      y = call(q, x)
      s, qs = scale_of(q, x, cls == "linear")
      if ak == "pts":
        # lifecycle New(auto_po2) -> Call -> read scale -> New(post_training_scale=scale) -> Call on fresh data
        raw = q.scale.numpy() if hasattr(q.scale, "numpy") else np.asarray(q.scale)
        q = make(pts=np.array(raw))
        x2, _ = data(rnd, shape, g)
        x = x2
        y = call(q, x)
        s2_, _ = scale_of(q, x, False)
        if not np.array_equal(s2_, s):
          errors.append({"k": "frozen_scale_changed", "meta": meta})
          continue
        qs = s
      if k:
        # history: half of the time the SAME object is called again on the other data (its exposed scale has to
        # follow the data of the last call), otherwise a fresh one
        q2 = q if (ak == "pts" or rnd.random() < 0.5) else make()
        xk = (x.astype(np.float64) * 2.0 ** k).astype(np.float32)
        y2 = call(q2, xk)
        s2, _ = scale_of(q2, xk, cls == "linear")
        if ak == "pts":
          k = 0
          meta["k"] = 0
      if not k:
        y2, s2 = y, s
    except Exception as e:
      errors.append({"k": "exc", "meta": meta, "exc": repr(e)[:300]})
      continue
    finally:
      tf.keras.backend.set_image_data_format("channels_last")
    if STALE:
      del STALE[:]
      errors.append({"k": "exposed_scale_is_not_the_scale_of_the_last_call", "meta": meta})
      continue
    if not all(np.all(np.isfinite(v)) for v in (y, s, qs, y2, s2)):
      errors.append({"k": "nonfinite", "meta": meta, "x": [float(v) for v in x.reshape(-1)]})
      continue
    ev = dict(meta)
    for name, arr in (("x", x), ("y", y), ("s", s), ("qs", qs), ("y2", y2), ("s2", s2)):
      ev[name] = [dy(v) for v in np.asarray(arr).reshape(-1)]
    events.append(ev)
  write_ndjson("%s.%d.ndjson" % (prefix, shard), events)
  json.dump(errors, open("%s.%d.err.json" % (prefix, shard), "w"))
  print(json.dumps({"events": len(events), "errors": len(errors)}))


if __name__ == "__main__":
  main()
