"""Driver for C12 (extended alphabet): real utils.model_quantize on image and sequence models containing Conv1D,
separable convolutions, recurrent layers and average pooling, in chain and forked (merge) topologies.

usage: drive_mquantx.py <unused> <out_prefix> <tier> <seed> <shard> <nshards>
"""
import copy
import json
import random
import sys
import numpy as np
from qk import tf, Q, qkeras
from qkeras import utils as qutils
from common import write_ndjson

L = tf.keras.layers
S = {"qA": "quantized_bits(4,0,1)", "bA": "quantized_bits(6,2,1)", "qB": "ternary()", "aB": "quantized_relu(5,1)",
     "aS": "quantized_relu(3,1)", "aDr": "quantized_relu(6,2)", "aDl": "quantized_relu(6,2,negative_slope=0.125)",
     "qN": "quantized_bits(8,3,1)", "qR": "quantized_bits(5,1,1)", "qS": "quantized_bits(7,2,1)", "qP": "quantized_bits(9,0,1)",
     "aR": "quantized_sigmoid(5)"}
ABITS = 4
RNN = ("SimpleRNN", "LSTM", "GRU", "Bidirectional")
SEP = ("SeparableConv1D", "SeparableConv2D")
POOL = ("AveragePooling2D", "GlobalAveragePooling2D")
IMG = ["Conv2D", "DepthwiseConv2D", "SeparableConv2D", "AveragePooling2D", "GlobalAveragePooling2D", "Dense", "ReLU", "Activation",
       "BatchNormalization", "User"]
SEQ = ["Conv1D", "SeparableConv1D", "SimpleRNN", "LSTM", "GRU", "Bidirectional", "Dense", "ReLU", "Activation", "User"]


class UserScale(L.Layer):
  """A user-defined layer: known to the conversion only through custom_objects; nothing selects it."""

  def __init__(self, factor=2.0, **kw):
    super().__init__(**kw)
    self.factor = factor

  def call(self, x):
    return x * self.factor

  def get_config(self):
    return dict(super().get_config(), factor=self.factor)
QN = lambda k: "QActivation" if k in ("Activation", "ReLU", "LeakyReLU") else "Q" + k


def entries(kind):
  if kind in ("Conv1D", "Conv2D", "Dense", "DepthwiseConv2D"):
    return ["empty", "A", "B"]
  if kind in RNN:
    return ["empty", "A", "B", "R", "RA"]
  if kind in SEP:
    return ["empty", "SP"]
  if kind in POOL:
    return ["empty", "P", "PB"]
  if kind == "BatchNormalization":
    return ["N", "empty"]
  return ["S", "D"]


def entry(e, kind):
  kq = "depthwise_quantizer" if kind == "DepthwiseConv2D" else "kernel_quantizer"
  return {"empty": {}, "A": {kq: S["qA"], "bias_quantizer": S["bA"]}, "B": {kq: S["qB"], "activation_quantizer": S["aB"]},
          "R": {"kernel_quantizer": S["qA"], "recurrent_quantizer": S["qR"], "bias_quantizer": S["bA"], "state_quantizer": S["qS"]},
          "RA": {"kernel_quantizer": S["qA"], "recurrent_quantizer": S["qR"], "bias_quantizer": S["bA"], "state_quantizer": S["qS"],
                 "recurrent_activation_quantizer": S["aR"]},
          "SP": {"depthwise_quantizer": S["qA"], "pointwise_quantizer": S["qB"], "bias_quantizer": S["bA"]},
          "P": {"average_quantizer": S["qP"]}, "PB": {"average_quantizer": S["qP"], "activation_quantizer": S["aB"]},
          "S": S["aS"], "D": {"relu": S["aDr"], "leakyrelu": S["aDl"]},
          "N": {k: S["qN"] for k in ("gamma_quantizer", "beta_quantizer", "mean_quantizer", "variance_quantizer")}}[e]


def make(l):
  k, n, b, a = l["kind"], l["name"], bool(l["bias"]), l["act"]
  if k == "Dense":
    return L.Dense(3, use_bias=b, activation=a, name=n)
  if k == "Conv2D":
    return L.Conv2D(3, (2, 2), padding="same", use_bias=b, activation=a, name=n)
  if k == "Conv1D":
    return L.Conv1D(3, 2, padding="same", use_bias=b, activation=a, name=n)
  if k == "DepthwiseConv2D":
    return L.DepthwiseConv2D((2, 2), padding="same", use_bias=b, activation=a, name=n)
  if k == "SeparableConv2D":
    return L.SeparableConv2D(3, (2, 2), padding="same", use_bias=b, activation=a, name=n)
  if k == "SeparableConv1D":
    return L.SeparableConv1D(3, 2, padding="same", use_bias=b, activation=a, name=n)
  if k == "GRU":     # reset_after=True needs array_ops.unstack, which this TensorFlow no longer has (environment, not QKeras)
    return L.GRU(3, use_bias=b, return_sequences=True, reset_after=False, name=n)
  if k == "Bidirectional":      # mirrored by default, or with an explicitly given backward layer (name suffix "x")
    bwd = L.LSTM(3, use_bias=b, return_sequences=True, go_backwards=True) if l.get("explicit_backward") else None
    return L.Bidirectional(L.LSTM(3, use_bias=b, return_sequences=True), backward_layer=bwd, name=n)
  if k in RNN:
    return getattr(L, k)(3, use_bias=b, return_sequences=True, name=n)
  if k == "AveragePooling2D":
    return L.AveragePooling2D((2, 2), strides=(1, 1), padding="same", name=n)
  if k == "GlobalAveragePooling2D":
    return L.GlobalAveragePooling2D(name=n)
  if k == "Activation":
    return L.Activation(a, name=n)
  if k == "ReLU":
    return L.ReLU(name=n)
  if k == "BatchNormalization":
    return L.BatchNormalization(name=n)
  if k == "User":
    return UserScale(0.5, name=n)
  raise ValueError(k)


def build(model, fam, topo):
  i = L.Input((4, 4, 2) if fam == "img" else (5, 3))
  lays = [make(l) for l in model]
  if topo == "sequential":          # a Sequential model: no InputLayer among model.layers
    seq = tf.keras.Sequential(lays)
    seq.build((None,) + tuple(i.shape[1:]))
    return seq
  if topo == "chain" or len(model) == 1:
    x = i
    for lay in lays:
      x = lay(x)
    return tf.keras.Model(i, x)
  # fork: the last layer reads the model input in parallel to the chain of the others; merged by Concatenate / Add
  x = i
  for lay in lays[:-1]:
    x = lay(x)
  y = lays[-1](i)
  if tuple(x.shape) == tuple(y.shape) and topo == "fork_add":
    z = L.Add(name="m")([x, y])
  else:
    z = L.Concatenate(axis=-1, name="m")([x, y])
  return tf.keras.Model(i, z)


_norm_cache = {}


def norm(cls, role, s):
  key = (cls, role, s)
  if key not in _norm_cache:
    ctor = {"QDense": lambda **k: qkeras.QDense(2, **k), "QConv2D": lambda **k: qkeras.QConv2D(2, (1, 1), **k),
            "QConv1D": lambda **k: qkeras.QConv1D(2, 1, **k), "QDepthwiseConv2D": lambda **k: qkeras.QDepthwiseConv2D((1, 1), **k),
            "QSeparableConv2D": lambda **k: qkeras.QSeparableConv2D(2, (1, 1), **k),
            "QSeparableConv1D": lambda **k: qkeras.QSeparableConv1D(2, 1, **k),
            "QSimpleRNN": lambda **k: qkeras.QSimpleRNN(2, **k), "QLSTM": lambda **k: qkeras.QLSTM(2, **k),
            "QGRU": lambda **k: qkeras.QGRU(2, **k), "QBatchNormalization": lambda **k: qkeras.QBatchNormalization(**k),
            "QAveragePooling2D": lambda **k: qkeras.QAveragePooling2D(**k),
            "QGlobalAveragePooling2D": lambda **k: qkeras.QGlobalAveragePooling2D(**k)}.get(cls)
    _norm_cache[key] = str(getattr(ctor(**{role: s}), role + "_internal")) if ctor else str(Q.get_quantizer(s))
  return _norm_cache[key]


def sym(cls, role, q, names):
  if q is None:
    return "none"
  s = str(q)
  for n in names:
    if norm(cls, role, S[n]) == s:
      return n
  return "other:" + s[:40]


def act_sym(a, default):
  if a is None:
    return "keep:linear"
  if hasattr(a, "__name__"):
    return "keep:" + a.__name__
  s = str(a)
  for n in ("aB", "aS", "aDr", "aDl"):
    if str(Q.get_quantizer(S[n])) == s:
      return n
  for act in ("relu", "tanh", "sigmoid"):
    if str(Q.get_quantizer("quantized_%s(%d)" % (act, ABITS))) == s:
      return "bits:" + act
  return "other:" + s[:40]


def project(qm, model):
  res = []
  for l in model:
    lay = qm.get_layer(l["name"])
    cls = lay.__class__.__name__
    if cls == "UserScale":
      cls = "User"
    r = {"cls": cls, "kq": "none", "bq": "none", "rq": "none", "sq": "none", "pq": "none", "act": "keep:" + l["act"], "ra": "none"}
    ra_of = lambda cell: "aR" if str(getattr(cell, "recurrent_activation", "")) == str(Q.get_quantizer(S["aR"])) else \
        ("none" if hasattr(getattr(cell, "recurrent_activation", None), "__name__") or not hasattr(cell, "recurrent_activation") else "other")
    if cls in ("QDense", "QConv2D", "QConv1D"):
      r["kq"] = sym(cls, "kernel_quantizer", lay.kernel_quantizer_internal, ("qA", "qB"))
      r["bq"] = sym(cls, "bias_quantizer", lay.bias_quantizer_internal, ("bA",))
      r["act"] = act_sym(lay.activation, l["act"])
    elif cls == "QDepthwiseConv2D":
      r["kq"] = sym(cls, "depthwise_quantizer", lay.depthwise_quantizer_internal, ("qA", "qB"))
      r["bq"] = sym(cls, "bias_quantizer", lay.bias_quantizer_internal, ("bA",))
      r["act"] = act_sym(lay.activation, l["act"])
    elif cls in ("QSeparableConv1D", "QSeparableConv2D"):
      r["kq"] = sym(cls, "depthwise_quantizer", lay.depthwise_quantizer_internal, ("qA", "qB"))
      r["pq"] = sym(cls, "pointwise_quantizer", lay.pointwise_quantizer_internal, ("qA", "qB"))
      r["bq"] = sym(cls, "bias_quantizer", lay.bias_quantizer_internal, ("bA",))
      r["act"] = act_sym(lay.activation, l["act"])
    elif cls == "QBidirectional":
      halves = []
      for inner in (lay.forward_layer, lay.backward_layer):
        ic = inner.__class__.__name__
        if not ic.startswith("Q"):
          halves.append(("none", "none", "none", "none", "keep:tanh", "none"))
          continue
        halves.append((sym(ic, "kernel_quantizer", inner.kernel_quantizer_internal, ("qA", "qB")),
                       sym(ic, "recurrent_quantizer", inner.recurrent_quantizer_internal, ("qR",)),
                       sym(ic, "bias_quantizer", inner.bias_quantizer_internal, ("bA",)),
                       sym(ic, "state_quantizer", inner.state_quantizer_internal, ("qS",)), act_sym(inner.cell.activation, l["act"]),
                       ra_of(inner.cell)))
      if halves[0] == halves[1]:
        r["kq"], r["rq"], r["bq"], r["sq"], r["act"] = halves[0][:5]
        r["ra"] = halves[0][5] if len(halves[0]) > 5 else "none"
      else:
        r["kq"] = "other:directions_differ " + str(halves)[:60]
    elif cls in ("QSimpleRNN", "QLSTM", "QGRU"):
      r["kq"] = sym(cls, "kernel_quantizer", lay.kernel_quantizer_internal, ("qA", "qB"))
      r["rq"] = sym(cls, "recurrent_quantizer", lay.recurrent_quantizer_internal, ("qR",))
      r["bq"] = sym(cls, "bias_quantizer", lay.bias_quantizer_internal, ("bA",))
      r["sq"] = sym(cls, "state_quantizer", lay.state_quantizer_internal, ("qS",))
      r["act"] = act_sym(lay.cell.activation, l["act"])
      r["ra"] = ra_of(lay.cell)
    elif cls in ("QAveragePooling2D", "QGlobalAveragePooling2D"):
      r["kq"] = sym(cls, "average_quantizer", lay.average_quantizer_internal, ("qP",))
      r["act"] = act_sym(lay.activation, "linear")
    elif cls == "QActivation":
      r["act"] = act_sym(lay.quantizer, l["act"])
    elif cls == "QBatchNormalization":
      roles = ("gamma_quantizer", "beta_quantizer", "mean_quantizer", "variance_quantizer")
      syms = {sym(cls, r_, getattr(lay, r_ + "_internal"), ("qN",)) for r_ in roles}
      r["kq"] = syms.pop() if len(syms) == 1 else "other:mixed"
    elif hasattr(lay, "activation") and cls not in RNN:
      r["act"] = "keep:" + (lay.activation.__name__ if hasattr(lay.activation, "__name__") else str(lay.activation))
    res.append(r)
  return res


def main():
  _, prefix, tier, seed, shard, nshards = sys.argv[1:7]
  seed, shard, nshards = int(seed), int(shard), int(nshards)
  rnd = random.Random(seed * 1000 + shard + 77)
  events, errors = [], []
  n = 30 if tier == "quick" else 250
  tries = 0
  while len(events) < n and tries < 20 * n:
    tries += 1
    fam = rnd.choice(["img", "seq"])
    ln = rnd.choice([1, 2, 2, 3, 3])
    topo = rnd.choice(["chain", "sequential", "fork_cat", "fork_add"])
    model = []
    for j in range(ln):
      k = rnd.choice(IMG if fam == "img" else SEQ)
      act = "tanh" if k in RNN else (rnd.choice(["linear", "relu"]) if k in ("Dense", "Conv1D", "Conv2D", "DepthwiseConv2D") + SEP
                                     else (rnd.choice(["relu", "tanh", "softmax"]) if k == "Activation" else "linear"))
      bias = rnd.randint(0, 1) if k in ("Dense", "Conv1D", "Conv2D", "DepthwiseConv2D") + SEP + RNN else 0
      model.append({"kind": k, "bias": bias, "act": act, "name": "n%d" % (j + 1)})
      if k == "Bidirectional" and rnd.random() < 0.5:
        model[-1]["explicit_backward"] = 1
    # rank-changing layer only as the very last layer of a chain
    if any(l["kind"] == "GlobalAveragePooling2D" for l in model[:-1]) or (topo != "chain" and model[-1]["kind"] == "GlobalAveragePooling2D"
                                                                          and len(model) > 1):
      continue
    try:
      km = build(model, fam, topo)
    except Exception:
      continue
    d = {}
    for l in model:
      if l["kind"] == "User":
        continue
      if rnd.random() < 0.55:
        d[QN(l["kind"])] = rnd.choice(entries(l["kind"]))
      if rnd.random() < 0.45:
        d[l["name"]] = rnd.choice(entries(l["kind"]))
    kind_of = {l["name"]: l["kind"] for l in model}
    kind_of.update({QN(l["kind"]): l["kind"] for l in model})
    qcfg = {k: entry(e, kind_of[k]) for k, e in d.items()}
    co = {"my_custom": {"a": [1, 2]}, "UserScale": UserScale}
    qcfg0, co0 = copy.deepcopy(qcfg), copy.deepcopy(co)
    for lay in km.layers:
      ws = lay.get_weights()
      if ws:
        lay.set_weights([np.random.RandomState(rnd.randint(0, 10 ** 6)).uniform(-1, 1, w.shape).astype(np.float32) for w in ws])
      if ws and rnd.random() < 0.25:
        lay.trainable = False
    json0 = km.to_json()
    w0 = [w.copy() for w in km.get_weights()]
    transfer = rnd.random() < 0.7
    ev = {"fam": fam, "topo_kind": topo if (len(model) > 1 or topo == "sequential") else "chain", "model": model, "dict": d, "exc": 0, "res": [], "topo": 1, "src": 1,
          "dct": 1, "wts": 1, "transfer": int(transfer)}
    try:
      qm = qutils.model_quantize(km, qcfg, ABITS, custom_objects=co, transfer_weights=transfer)
      ev["res"] = project(qm, model)
      ev["topo"] = int([l.name for l in km.layers] == [l.name for l in qm.layers] and
                       [tuple(l.output_shape) for l in km.layers] == [tuple(l.output_shape) for l in qm.layers] and
                       [[n.name for n in _inbound(l)] for l in km.layers] == [[n.name for n in _inbound(l)] for l in qm.layers])
      if transfer:
        ev["wts"] = int(all(len(l0.get_weights()) == len(l1.get_weights()) and
                            all(np.array_equal(a, b) for a, b in zip(l0.get_weights(), l1.get_weights()))
                            for l0, l1 in zip(km.layers, qm.layers)))
    except Exception as e:
      ev["exc"] = 1
      ev["exc_text"] = repr(e)[:200]
    ev["src"] = int(km.to_json() == json0 and all(np.array_equal(a, b) for a, b in zip(w0, km.get_weights())))
    ev["dct"] = int(qcfg == qcfg0 and co == co0)
    events.append(ev)
  # Activation layers converted to QAdaptiveActivation (prefer_qadaptiveactivation): a quantized layer with state
  # variables of its own - the conversion succeeds, the classes are the expected ones and, with weight transfer, every
  # layer that had weights starts from them
  if shard < 3:
    for acfg in ("quantized_relu(6)", {"relu": "quantized_relu(6)"}):
      for topo in ("functional", "sequential"):
        i = L.Input((5,))
        lays = [L.Dense(4, name="d1"), L.Activation("relu", name="a1"), L.Dense(3, name="d2")]
        if topo == "sequential":
          km = tf.keras.Sequential(lays)
          km.build((None, 5))
        else:
          x = i
          for lay in lays:
            x = lay(x)
          km = tf.keras.Model(i, x)
        for lay in km.layers:
          if lay.get_weights():
            lay.set_weights([np.random.RandomState(rnd.randint(0, 10 ** 6)).uniform(-1, 1, w.shape).astype(np.float32) for w in lay.get_weights()])
        qcfg = {"QDense": entry("A", "Dense"), "QAdaptiveActivation": acfg}
        ev = {"adaptive": 1, "exc": 0, "cls_ok": 1, "wts": 1, "transfer": int(shard != 1)}
        try:
          qm = qutils.model_quantize(km, copy.deepcopy(qcfg), ABITS, transfer_weights=bool(ev["transfer"]), prefer_qadaptiveactivation=True)
          ev["cls_ok"] = int([qm.get_layer(n).__class__.__name__ for n in ("d1", "a1", "d2")] == ["QDense", "QAdaptiveActivation", "QDense"])
          if ev["transfer"]:
            ev["wts"] = int(all(np.array_equal(a, b) for n in ("d1", "d2")
                                for a, b in zip(km.get_layer(n).get_weights(), qm.get_layer(n).get_weights())))
        except Exception as e:
          ev["exc"] = 1
          ev["exc_text"] = repr(e)[:200]
        events.append(ev)
  write_ndjson("%s.%d.ndjson" % (prefix, shard), events)
  json.dump(errors, open("%s.%d.err.json" % (prefix, shard), "w"))
  print(json.dumps({"events": len(events), "errors": len(errors)}))


def _inbound(layer):
  out = []
  for node in layer._inbound_nodes:
    ls = node.inbound_layers
    out += list(ls) if isinstance(ls, (list, tuple)) else [ls]
  return out


if __name__ == "__main__":
  main()
