"""C01 / C02: fixed-point quantizers (QFixed.tla, MC_QFixed, Trace_QFixed, drive_fixed.py)."""
import json
import os
from common import (Check, Machinery, run_tlc, run_drivers_parallel, judge_shards, scratch_root, read_ndjson,
                    check_coverage, undy)

CLAUSES = {
    "C01": {"not_multiple_of_step", "out_of_code_range", "outside_minmax", "range_not_reachable_set", "code_lost_in_float32_ste", "exc", "range_raises", "float64_input_differs",
            "nonfinite"},
    "C02": {"not_nearest", "error_above_half_step", "not_idempotent", "not_monotone"},
}
NSHARDS = 14


def alpha_variants(c):
  """Constant scales of the property's domain: powers of two for both linear formats, 3/2 for the legacy one."""
  out = [dict(c, al_none=True)]
  if c["cls"] == "bits" and c["bits"] - c["kn"] >= 1:
    for al in ([1, 0], [1, 1], [1, -1], [3, -1]):
      out.append(dict(c, al=al, al_none=False))
  elif c["cls"] == "bits":
    out.append(dict(c, al=[1, 1], al_none=False))
  elif c["cls"] == "linear":
    for al in ([1, 1], [1, -1]):
      out.append(dict(c, al=al, al_none=False))
  return out


def cfg_identity(c):
  d = {"class": "quantized_" + c["cls"], "bits1": c["bits"] == 1}
  d["sign_format"] = c["cls"] in ("bits", "linear") and c["bits"] - c["kn"] == 0
  d["alpha_is_one"] = undy(c["al"]) == 1.0
  d["alpha_gt_one"] = undy(c["al"]) > 1.0
  d["slope_fits_grid"] = not (c["cls"] == "relu" and c["sl"] > 0 and 2 ** c["sl"] > 2 ** (c["bits"] - 1))
  d["clip"] = c["clip"]
  d["integer_negative"] = c["int"] < 0
  return d


def run(pid, tier, seed):
  chk = Check(pid, tier, seed)
  chk.rule = ("case = (configuration, quarter-step cell class of the input, side); configurations and cells are the "
              "reachable states of MC_QFixed; each cell is realised by float32 witnesses (grid point, +-1 ulp, "
              "interior) on the real quantizer plus seeded random float32 inputs; distinct = (cfg, cell mod 4, side, "
              "region below/inside/above the code range)")
  chk.assumptions = ["IEEE float32 round-to-nearest-even in TF CPU kernels",
                     "legacy-Keras environment (TF_USE_LEGACY_KERAS=1) stands in for the environment QKeras targets",
                     "constant scales restricted to {1, 2, 1/2, 3/2} (legacy) and powers of two (quantized_linear)"]
  mc = run_tlc("MC_QFixed", "MC_QFixed_" + tier, coverage=True)
  chk.add_mc("MC_QFixed_" + tier, mc, "Design => Prop (C01+C02) on all cells x configurations")
  check_coverage(mc, ["Init", "Step"], "MC_QFixed")
  base = None
  for p in mc.prints():
    if p and p[0] == "CFGS":
      base = p[1]["__set__"]
  if not base:
    raise Machinery("MC_QFixed did not print its configuration lattice")
  cfgs = []
  for c in sorted(base, key=lambda c: json.dumps(c, sort_keys=True)):
    cfgs += alpha_variants(c)
  # configurations of the statement's quantifier that lie outside the model-checked lattice (Prop fails by design
  # there or reporters are undefined): sign formats, coarse leaky slopes
  extra = []
  for b in (1,):
    for i in (0, 1, 2):
      for cls in ("bits", "linear"):
        for s in (0, 1):
          extra.append({"cls": cls, "bits": b, "int": i, "kn": 1, "sym": s, "sl": 0, "al": [1, 0], "clip": "q",
                        "ub": [0, 0], "al_none": True})
  for b, sl in ((2, 2), (2, 3), (3, 3)):
    extra.append({"cls": "relu", "bits": b, "int": 1, "kn": 0, "sym": 0, "sl": sl, "al": [1, 0], "clip": "q",
                  "ub": [0, 0], "al_none": True})
  cfgs += extra
  # histories: the same configuration reached by re-assigning bits/integer on a quantizer that was already built and
  # called with another format (what QAdaptiveActivation does every step) must behave like a fresh one
  hist = [dict(c, hist="reassign") for j, c in enumerate(cfgs)
          if c["cls"] in ("bits", "relu", "linear") and c.get("al_none") and j % 3 == seed % 3]
  cfgs += hist
  # the library-wide sigmoid mode (set_internal_sigmoid) is read at call time: smooth mode set before construction
  # and after the quantizer was already built and called
  modes = [dict(c, sig="smooth", hist=h) for c in cfgs if c["cls"] in ("tanh", "sigmoid") and c["bits"] <= (4 if tier == "quick" else 6)
           for h in ("mode_before", "mode_after")]
  cfgs += modes
  # real sigmoid: as the library-wide mode (set before / after construction) and through use_real_sigmoid/use_real_tanh
  cfgs += [dict(c, sig=sg, **({"hist": h} if h else {})) for c in cfgs
           if c["cls"] in ("tanh", "sigmoid") and "sig" not in c and c["bits"] <= (4 if tier == "quick" else 6)
           for sg, h in (("real", "mode_before"), ("real", "mode_after"), ("realflag", None))]
  root = scratch_root()
  cpath = os.path.join(root, "fixed_cfgs.json")
  json.dump(cfgs, open(cpath, "w"))
  prefix = os.path.join(root, "fixed")
  outs = run_drivers_parallel([("drive_fixed.py", [cpath, prefix, tier, seed, s, NSHARDS]) for s in range(NSHARDS)])
  shards = []
  for s in range(NSHARDS):
    n = json.loads(outs[s].strip().splitlines()[-1])["events"]
    shards.append({"env": {"TRACE_FILE": "%s.%d.ndjson" % (prefix, s), "CFG_FILE": "%s.%d.cfg.json" % (prefix, s)},
                   "n": n})
  prints = judge_shards(chk, "Trace_QFixed", "Trace_QFixed", shards)
  mine = CLAUSES[pid]
  for s in range(NSHARDS):
    scfg = json.load(open("%s.%d.cfg.json" % (prefix, s)))
    evs = None
    for e in json.load(open("%s.%d.err.json" % (prefix, s))):
      if e["k"] in mine:
        c = scfg[e["c"] - 1]
        ident = dict(cfg_identity(c), clause=e["k"])
        chk.violation(ident, {"cfg": c, "event": e})
    for p in prints[s]:
      if not p or p[0] != "REJECT":
        continue
      if evs is None:
        evs = read_ndjson("%s.%d.ndjson" % (prefix, s))
      ev = evs[p[1] - 1]
      c = scfg[ev["c"] - 1]
      for clause in p[2]:
        if clause.startswith("DEV_"):
          chk.deviation(clause)
          continue
        if clause not in mine:
          continue
        ident = dict(cfg_identity(c), clause=clause)
        detail = {"cfg": c, "clause": clause, "event": ev}
        if ev["k"] == "call":
          detail["x"] = undy(ev["x"]); detail["y"] = undy(ev["y"]); detail["yy"] = undy(ev["yy"])
        chk.violation(ident, detail)
    # distinct-case accounting + samples
    if evs is None:
      evs = read_ndjson("%s.%d.ndjson" % (prefix, s))
    for ev in evs[:: max(1, len(evs) // 4000)]:
      if ev["k"] == "call":
        chk.key((s, ev["c"], ev["x"][0] % 8, ev["x"][1] % 4, ev["y"][0] % 16))
    for ev in evs[:2]:
      if ev["k"] == "call":
        chk.sample({"cfg": scfg[ev["c"] - 1], "x": undy(ev["x"]), "y": undy(ev["y"]), "q(y)": undy(ev["yy"])})
  chk.cov["exhaustive"] = True
  chk.cov["configurations"] = len(cfgs)
  return chk.finish()
