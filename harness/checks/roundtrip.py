"""C09 (and the print direction of C10): configuration round trips (QSchema.tla, MC_QRoundTrip, Trace_QRoundTrip)."""
import json
import os
from common import (Check, Machinery, run_tlc, run_drivers_parallel, judge_shards, scratch_root, read_ndjson,
                    check_coverage)

NSHARDS = 14
C09_ROUTES = {"RT_FromConfig", "RT_Lookup", "RT_Keras"}
# options that do not change what the quantizer returns on any input (gradient mode / storage mode): differences in
# these alone are deviations by the statement ("returns the same outputs and the same scale")
NON_FUNCTIONAL = {"use_ste", "use_variables"}


def lattice(tier):
  mc = run_tlc("MC_QRoundTrip", "MC_QRoundTrip_" + tier, coverage=True)
  cfgs = None
  for p in mc.prints():
    if p and p[0] == "CFGS":
      cfgs = sorted(p[1]["__set__"], key=lambda c: json.dumps(c, sort_keys=True))
  if not cfgs:
    raise Machinery("MC_QRoundTrip printed no lattice")
  return mc, cfgs


def replay(chk, cfgs, tier, seed, mode="config"):
  root = scratch_root()
  cpath = os.path.join(root, "rt_cfgs.json")
  json.dump(cfgs, open(cpath, "w"))
  prefix = os.path.join(root, "rt")
  outs = run_drivers_parallel([("drive_roundtrip.py", [cpath, prefix, tier, seed, s, NSHARDS, mode]) for s in range(NSHARDS)])
  shards, metas = [], {}
  for s in range(NSHARDS):
    info = json.loads(outs[s].strip().splitlines()[-1])
    shards.append({"env": {"TRACE_FILE": "%s.%d.ndjson" % (prefix, s)}, "n": info["events"], "traces": info["traces"]})
    for m in json.load(open("%s.%d.meta.json" % (prefix, s))):
      metas[m["t"]] = m
  prints = judge_shards(chk, "Trace_QRoundTrip", "Trace_QRoundTrip", shards)
  rejects = [p for ps in prints for p in ps if p and p[0] == "REJECT"]
  return metas, rejects


def run(pid, tier, seed):
  chk = Check(pid, tier, seed)
  routes = C09_ROUTES if pid == "C09" else {"RT_Str"}
  chk.rule = ("case = (configuration with every constructor option, sequence of round-trip routes); configurations are "
              "the lattice of QSchema (bases x up to K single-option deviations, documented contracts respected), "
              "sequences are the route compositions MC_QRoundTrip explores; the function is observed on fixed probe "
              "tensors (rank 1 and 2, inference and training phase with fixed draws); distinct = (cfg, sequence)")
  chk.assumptions = ["function equality is decided on the probe family (outputs and exposed scale, bitwise)",
                     "options that cannot change outputs (use_ste, use_variables) are reported as deviations only"]
  mc, cfgs = lattice(tier)
  chk.add_mc("MC_QRoundTrip_" + tier, mc, "routes are stuttering steps on the configuration; compositions")
  check_coverage(mc, ["Init", "RT"], "MC_QRoundTrip")
  metas, rejects = replay(chk, cfgs, tier, seed)
  for m in metas.values():
    if "construct_exc" in m:
      chk.violation({"class": cfgs[m["cfg"]]["cls"], "clause": "constructor_or_call_raises"},
                    {"cfg": cfgs[m["cfg"]], "exc": m["construct_exc"]})
  seen = set()
  for p in rejects:
    _, t, line, where, clause = p[:5]
    if where == "Registry":
      if pid == "C09":
        chk.violation({"clause": clause}, {"line": line})
      continue
    m = metas[t]
    cfg = cfgs[m["cfg"]]
    # the step that failed: `where` is the route after which the probe differed / that raised
    step = next((s for s in m["steps"] if s["route"] == where and ("exc" in s or clause != "raises")), None)
    first_bad = m["seq"][len([s for s in m["steps"] if "exc" not in s]) - (0 if clause == "raises" else 1)] if m["steps"] else where
    if where not in routes:
      continue
    # only the first failing route of a sequence is attributed (later probes are skipped by the trace spec)
    diff = sorted((step or {}).get("diff", []))
    nondefault = sorted(k for k, v in cfg["opts"].items())
    ident = {"class": cfg["cls"], "route": where, "clause": clause, "fields": diff,
             "array_alpha": str(cfg["opts"].get("alpha", "")).startswith("v:")}
    key = json.dumps([ident, m["cfg"]])
    if key in seen:
      continue
    seen.add(key)
    if clause != "raises" and diff and set(diff) <= NON_FUNCTIONAL:
      chk.deviation("nonfunctional_option_lost:" + ",".join(diff))
      continue
    chk.violation(ident, {"cfg": cfg, "sequence": m["seq"], "steps": m["steps"]})
  for m in metas.values():
    chk.key((m["cfg"], tuple(m["seq"])))
  ex = next(iter(metas.values()))
  chk.sample({"cfg": cfgs[ex["cfg"]], "sequence": ex["seq"], "steps": ex["steps"]})
  chk.cov["configurations"] = len(cfgs)
  chk.cov["replayed_sequences"] = len(metas)
  return chk.finish()
