"""C20: AutoQKeras trials and forgiving factor (AutoQ.tla, MC_AutoQ, Trace_AutoQ, drive_autoq.py)."""
import json
from common import Check, run_tlc, sharded_events


def run(pid, tier, seed):
  chk = Check(pid, tier, seed)
  chk.rule = ("trials: case = (assignment of every tuner choice, layer_indexes) on the reference model of AutoQ.tla (class "
              "keys, a regex pattern group, softmax / linear layers); all 324 assignments x 4 index sets in the thorough "
              "tier, a seeded sample of 420 in quick; bonus: case = (delta_p, delta_n, rate, reference, trial size); size: "
              "case = trial model; distinct = the tuple")
  chk.assumptions = ["the keras-tuner search loop cannot run in this environment; the tuner is a stub that records and "
                     "answers every Choice/Fixed call", "filter tuning (tune_filters) is not exercised"]
  mc = run_tlc("MC_AutoQ", "MC_AutoQ", coverage=True)
  chk.add_mc("MC_AutoQ", mc, "all assignments: within limits, group sharing, unselected untouched, softmax kept")
  rejects, errors, events = sharded_events(chk, "drive_autoq.py", "-", "Trace_AutoQ", tier, seed, "autoq")
  for e in errors:
    chk.violation({"clause": "raises"}, e)
  for ev, clauses in rejects:
    for cl in clauses:
      chk.violation({"clause": cl, "kind": ev["kind"]}, {k: v for k, v in ev.items() if len(json.dumps(v)) < 1500})
  for ev in events:
    chk.key(json.dumps([ev["kind"], ev["idx"], [c["chosen"] for c in ev["calls"]], ev["ref"], ev["trial"], ev["series"], ev["elems"]]))
  tr = next(e for e in events if e["kind"] == "trial")
  chk.sample({"idx": tr["idx"], "calls": tr["calls"][:4], "res": tr["res"][:2]})
  chk.cov["trials"] = sum(1 for e in events if e["kind"] == "trial")
  return chk.finish()
