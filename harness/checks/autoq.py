"""C20: AutoQKeras trials and forgiving factor (AutoQ.tla, MC_AutoQ, Trace_AutoQ, drive_autoq.py)."""
import json
from common import Check, run_tlc, sharded_events


def _exceeds(ev, c):
  """harness-side re-derivation (diagnosis only; the verdict is TLC's): offered value above the documented limit."""
  if not c["given"]:
    return False
  d = [{"t": "n", "n": v, "l": []} for v in ev["default"]]
  g = list(c["given"])
  if c["registered"]:
    if c["seq"]:
      g = g + d[len(g):] if len(g) < 4 else g
    elif len(g) < 3:
      g = g + d[len(g):2] + d[-1:]
  role = c["role"]
  idx = 0 if role in ("kernel", "pointwise_kernel") else 1 if role == "bias" else (2 if c["seq"] else 0) if role == "recurrent_kernel" else len(g) - 1
  field = "kernel" if role in ("kernel", "pointwise_kernel", "recurrent_kernel") else role
  tab = dict(map(tuple, ev["table"].get(field, [])))
  e = g[idx]
  ok = set(e["l"]) & set(tab) if e["t"] == "l" else {k for k, v in tab.items() if v <= e["n"]}
  return not set(c["values"]) <= ok


def run(pid, tier, seed):
  chk = Check(pid, tier, seed)
  chk.rule = ("trials: case = (assignment of every tuner choice, layer_indexes) on the reference model of AutoQ.tla (class "
              "keys, a regex pattern group, softmax / linear layers); all 324 assignments x 4 index sets in the thorough "
              "tier, a seeded sample of 280 in quick; generic instances (mixed conv/separable/LSTM model with short limit lists, default completion, explicit quantizer lists, names containing 'kernel'/'bias'; Conv1D/SimpleRNN/GRU model with a regex group): seeded random tuner answers; bonus: case = (delta_p, delta_n, rate, reference, trial size); size: "
              "case = trial model; distinct = the tuple")
  chk.assumptions = ["the keras-tuner search loop cannot run in this environment; the tuner is a stub that records and "
                     "answers every Choice/Fixed call", "filter tuning (tune_filters) is not exercised"]
  mc = run_tlc("MC_AutoQ", "MC_AutoQ", coverage=True)
  chk.add_mc("MC_AutoQ", mc, "all assignments: within limits, group sharing, unselected untouched, softmax kept")
  mcg = run_tlc("MC_AutoQG", "MC_AutoQG", coverage=True)
  chk.add_mc("MC_AutoQG", mcg, "limit completion from 'default' and role indexing: code rule = documented format on all short lists")
  rejects, errors, events = sharded_events(chk, "drive_autoq.py", "-", "Trace_AutoQ", tier, seed, "autoq")
  for e in errors:
    chk.violation({"clause": e["k"] if e["k"] != "exc" else "raises"}, e)
  for ev, clauses in rejects:
    for cl in clauses:
      chk.violation({"clause": cl, "kind": ev["kind"]}, {k: v for k, v in ev.items() if len(json.dumps(v)) < 1500})
  for ev in events:
    chk.key(json.dumps([ev["kind"], ev["idx"], [c["chosen"] for c in ev["calls"]], ev["ref"], ev["trial"], ev["series"], ev["elems"]]))
  # generic instances: mixed conv / separable / recurrent models, short limit lists + default, explicit quantizer lists
  rejg, errg, evg = sharded_events(chk, "drive_autoqg.py", "-", "Trace_AutoQG", tier, seed, "autoqg")
  for e in errg:
    chk.violation({"clause": "raises", "instance": e.get("inst", "")}, e)
  for ev, clauses in rejg:
    for cl in clauses:
      if cl.startswith("DEV_"):
        chk.deviation(cl)
        continue
      ident = {"clause": cl, "kind": "gtrial"}
      if cl == "offered_quantizer_exceeds_limit_or_is_not_in_the_role_table":
        # which (role, layer kind) pairs were offered something outside the documented limit
        bad = sorted({c["role"] + ("@seq" if c["seq"] else "") for c in ev["calls"] if _exceeds(ev, c)})
        ident["roles"] = ",".join(bad)
      chk.violation(ident, {k: v for k, v in ev.items() if k != "table"})
  for ev in evg:
    chk.key(json.dumps([ev["inst"], [l["selected"] for l in ev["layers"]], [c["chosen"] for c in ev["calls"]]]))
  chk.cov["generic_trials"] = len(evg)
  tr = next(e for e in events if e["kind"] == "trial")
  chk.sample({"idx": tr["idx"], "calls": tr["calls"][:4], "res": tr["res"][:2]})
  chk.cov["trials"] = sum(1 for e in events if e["kind"] == "trial")
  return chk.finish()
