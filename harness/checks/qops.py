"""C19: operation counts and energy accounting (QOps.tla, MC_QOps, Trace_QOps, drive_qops.py)."""
import json
from common import Check, run_tlc, sharded_events


def run(pid, tier, seed):
  chk = Check(pid, tier, seed)
  chk.rule = ("counts: case = one layer instance (class, spatial size, channels, kernel, stride, padding, dilation, depth "
              "multiplier / pool window / units); energy: case = (model, weights_on_memory, activations_on_memory, "
              "min_sram_size, rd_wr_on_io, selection table); distinct = the tuple")
  chk.assumptions = ["energy entries: the documented formulas are re-evaluated by the harness in float arithmetic from "
                     "the reported types/counts/sizes with the library's polynomial table; TLC compares at 2 decimals "
                     "and decides the accounting identities on integers x100",
                     "grouped convolutions are outside the statement's geometry list"]
  mc = run_tlc("MC_QOps", "MC_QOps_" + tier, coverage=True)
  chk.add_mc("MC_QOps_" + tier, mc, "closed forms = loop-nest cardinalities on small geometries")
  rejects, errors, events = sharded_events(chk, "drive_qops.py", "-", "Trace_QOps", tier, seed, "qops")
  for e in errors:
    ident = {"clause": "raises", "class": e["g"].get("cls")}
    if "aq" in e["g"]:
      ident.update(via=e["g"]["via"], input_quantizer=e["g"]["aq"], kernel_quantizer=e["g"]["kq"])
    chk.violation(ident, e)
  for ev, clauses in rejects:
    for cl in clauses:
      if ev["k"] == "count":
        g = ev["g"]
        ident = {"clause": cl, "class": g["cls"], "depth_multiplier_gt_1": g["dm"] > 1}
        # the recorded findings are exact wrong formulas, not "anything wrong for this class"
        wrong = {"AveragePooling2D": g["cin"] * g["kh"] * g["kw"], "QAveragePooling2D": 0}.get(g["cls"])
        if g["cls"] in ("DepthwiseConv2D", "QDepthwiseConv2D") and g["dm"] > 1:
          oh = (g["h"] - g["kh"]) // g["sh"] + 1 if g["pad"] == "valid" else -(-g["h"] // g["sh"])
          ow = (g["w"] - g["kw"]) // g["sw"] + 1 if g["pad"] == "valid" else -(-g["w"] // g["sw"])
          wrong = g["kh"] * g["kw"] * oh * ow * g["cin"]
        ident["reported_is_the_known_wrong_formula"] = wrong is not None and ev["reported"] == wrong
        if ev.get("via") == "estimate":
          ident["via"] = "estimate.extract_model_operations"
        chk.violation(ident, {"geometry": g, "reported": ev["reported"]})
      else:
        chk.violation({"clause": cl, "model": ev["model"]}, {k: ev[k] for k in ("setting", "layers", "total", "sel", "extracted")})
  for ev in events:
    chk.key(json.dumps([ev["g"], ev.get("via"), ev.get("aq"), ev.get("kq")], sort_keys=True) if ev["k"] == "count" else json.dumps([ev["model"], ev["setting"], ev["sel"]]))
  chk.sample(next(e for e in events if e["k"] == "count"))
  en = [e for e in events if e["k"] == "energy"]
  if en:
    chk.sample({k: en[0][k] for k in ("setting", "total", "extracted")} | {"layers": en[0]["layers"][:2]})
  chk.cov["layer_instances"] = sum(1 for e in events if e["k"] == "count")
  chk.cov["energy_reports"] = len(en)
  return chk.finish()
