"""C14: exported quantized weights (Export.tla, MC_Export, Trace_Export, drive_export.py)."""
import json
from common import Check, run_tlc, sharded_events, check_coverage


def run(pid, tier, seed):
  chk = Check(pid, tier, seed)
  chk.rule = ("case = (weight-bearing quantized layer class, quantizer variant fixed/po2/auto_po2/auto/ternary/binary, "
              "(quantizer, weight) role) for the export relations; (model) for prediction preservation and the second "
              "export; (conv/depthwise + QBatchNormalization, use_bias/center/scale) for the fusing terms")
  chk.assumptions = ["'quantizer applied once' is evaluated with a fresh quantizer rebuilt from get_config() on the "
                     "weights the layer held before the export"]
  mc = run_tlc("MC_Export", "MC_Export", coverage=True)
  chk.add_mc("MC_Export", mc, "export histories: applied once, second export stutters, po2 split rebuilds")
  check_coverage(mc, ["Init", "ExportStep"], "MC_Export")
  rejects, errors, events = sharded_events(chk, "drive_export.py", "-", "Trace_Export", tier, seed, "export")
  for e in errors:
    chk.violation({"clause": "raises", "class": e["cls"], "variant": e["variant"], "freeze": e["freeze"]}, e)
  for ev, clauses in rejects:
    for cl in clauses:
      ident = {"clause": cl, "class": ev.get("cls", "bnfuse"), "variant": ev.get("variant", "")}
      if ev["kind"] == "bnfuse":
        ident.update({"center": ev.get("center"), "scale": ev.get("scale")})
      chk.violation(ident, {k: v for k, v in ev.items() if len(json.dumps(v)) < 800})
  for ev in events:
    chk.key(json.dumps([ev["kind"], ev.get("cls"), ev.get("variant"), ev.get("layer"), ev.get("role"), ev.get("center"),
                        ev.get("scale"), ev.get("usebias"), ev.get("dw"), ev.get("J")]))
  chk.sample({k: events[0].get(k) for k in ("kind", "cls", "variant", "layer", "role", "qkind")} |
             {"w1": events[0]["w1"][:4], "hw": events[0]["hw"][:4]})
  return chk.finish()
