"""C04: binary / ternary quantizers (QBinTern.tla, MC_QGroup, Trace_QBinTern, drive_binary.py)."""
import json
import os
from common import (Check, Machinery, run_tlc, run_drivers_parallel, judge_shards, scratch_root, read_ndjson, undy)

NSHARDS = 14


def identity(ev, clause):
  return {"class": ev["cls"], "clause": clause, "alpha": ev["ak"], "use_01": bool(ev["use01"]),
          "rank": len(ev["shape"]), "grouping": "default" if not ev["sa"] else "scale_axis" + ("+eps" if ev["eps"] else ""),
          "exponent_bounds": bool(ev["hasmin"] or ev["hasmax"])}


def run(pid, tier, seed):
  chk = Check(pid, tier, seed)
  chk.rule = ("case = one tensor call: (class, alpha mode, use_01, shape, scale_axis, elements_per_scale, exponent "
              "bounds, data kind); (shape, axes, eps) triples are the reachable states of MC_QGroup; data on an integer "
              "grid n*2^g (exact least-squares sums in TLC) and free float32 tensors; distinct = (class, mode, shape, "
              "sa, eps, bounds, grid)")
  chk.assumptions = ["least-squares clause judged exactly on integer-grid data (|n| <= 31, <= 64 elements per group), "
                     "relative tolerance 2^-16 (float32 means, Keras epsilon in the denominator)",
                     "outputs are compared as Ste32(x, scale*code): the float32 value of x + (scale*code - x)",
                     "stochastic variants and bernoulli are covered under C08"]
  mc = run_tlc("MC_QGroup", "MC_QGroup_" + tier, coverage=True)
  chk.add_mc("MC_QGroup_" + tier, mc, "grouping is a partition with the declared group count/size")
  cases = [{"shape": p[1], "sa": p[2], "eps": p[3]} for p in mc.prints() if p and p[0] == "CASE"]
  # TLC evaluates the Emit invariant once per distinct state
  cases = [json.loads(s) for s in sorted({json.dumps(c) for c in cases})]
  if len(cases) < 10:
    raise Machinery("MC_QGroup emitted no lattice")
  cases = [c for c in cases if 1 <= eval("*".join(map(str, c["shape"]))) <= 96]
  root = scratch_root()
  cpath = os.path.join(root, "bin_cases.json")
  json.dump(cases, open(cpath, "w"))
  prefix = os.path.join(root, "bin")
  outs = run_drivers_parallel([("drive_binary.py", [cpath, prefix, tier, seed, s, NSHARDS]) for s in range(NSHARDS)])
  shards = []
  for s in range(NSHARDS):
    n = json.loads(outs[s].strip().splitlines()[-1])["events"]
    shards.append({"env": {"TRACE_FILE": "%s.%d.ndjson" % (prefix, s)}, "n": n})
  prints = judge_shards(chk, "Trace_QBinTern", "Trace_QBinTern", shards)
  for s in range(NSHARDS):
    evs = read_ndjson("%s.%d.ndjson" % (prefix, s)) if shards[s]["n"] else []
    for e in json.load(open("%s.%d.err.json" % (prefix, s))):
      chk.violation(identity(e["meta"], e["k"]), e)
    for p in prints[s]:
      if p and p[0] == "REJECT":
        ev = evs[p[1] - 1]
        for cl in p[2]:
          chk.violation(identity(ev, cl), {"clause": cl, "event": ev, "x": [undy(v) for v in ev["x"]],
                                           "y": [undy(v) for v in ev["y"]], "scale": [undy(v) for v in ev["s"]]})
    for ev in evs:
      chk.key((ev["cls"], ev["ak"], ev["use01"], tuple(ev["shape"]), tuple(ev["sa"]), tuple(ev["eps"]), ev["hasmin"],
               ev["hasmax"], ev["g"]))
    for ev in evs[:1]:
      chk.sample({k: ev[k] for k in ("cls", "ak", "shape", "sa", "eps", "g", "args")} |
                 {"x": [undy(v) for v in ev["x"]][:8], "y": [undy(v) for v in ev["y"]][:8],
                  "scale": [undy(v) for v in ev["s"]][:8]})
  chk.cov["exhaustive"] = True
  chk.cov["grouping_cases"] = len(cases)
  return chk.finish()
