"""C18: reported bit widths vs concrete model tensors (QTypes.tla, Trace_QModel, drive_qmodel.py)."""
import json
from common import Check, run_tlc, sharded_events


def run(pid, tier, seed):
  chk = Check(pid, tier, seed)
  chk.rule = ("case = (layer kind dense/conv2d/conv1d/depthwise, weight quantizer, input quantizer, bias quantizer, one "
              "or two stacked layers, weight/input pattern: extremal sign-aligned or random); observed tensors come "
              "from intermediate sub-models of the real model; distinct = the tuple x layer")
  chk.assumptions = ["value lattices of reported types as in C16/C17 (QTypes.tla)",
                     "the estimator is judged on the input ranges actually fed to each layer"]
  mc = run_tlc("MC_QTypes", "MC_QTypes_" + tier, coverage=True)
  chk.add_mc("MC_QTypes_" + tier, mc, "type-level rules (multiplier, accumulator, bias adder) shared with C16/C17")
  rejects, errors, events = sharded_events(chk, "drive_qmodel.py", "-", "Trace_QModel", tier, seed, "qmodel")
  for e in errors:
    chk.violation({"clause": e["k"], "kind": e["meta"]["kind"]}, e)
  for ev, clauses in rejects:
    for cl in clauses:
      m = ev["meta"]
      ident = {"clause": cl, "kind": m["kind"], "layer": ev["layer"],
               "input_range_inside_unit_interval": bool(ev.get("range")) and max(abs(ev["range"][0]), abs(ev["range"][1])) < 1, "weights": m["wq"].split("_")[0].rstrip("0123456789iu"),
               "bias": bool(ev["hasb"]) if "hasb" in ev else m["bq"] != "none"}     # the bias of THIS layer (l2 has its own)
      if ev.get("range"):
        ident["input_range_entirely_negative"] = ev["range"][1] < 0
      if "iq" in m:
        ident["input_quantizer"] = m["iq"].rstrip("0123456789")
      # two structural facts of the failing case that the recorded findings are keyed on
      if ev.get("k") == "layer" and cl in ("preactivation_not_representable", "activation_outside_reported_type"):
        t, obs = (ev["acc"], ev["pre"]) if cl.startswith("pre") else (ev["it"], ev["x"])
        nz = [p for p in obs if p[0] != 0]
        mant, e = max(((abs(p[0]), p[1]) for p in nz), key=lambda q: q[0] * 2.0 ** q[1]) if nz else (0, 0)   # the largest MAGNITUDE
        while mant and mant % 2 == 0:
          mant, e = mant // 2, e + 1
        ident["value_is_exactly_two_to_the_int_bits"] = bool(mant == 1 and e == t["int"] and not t["po2"])
        ident["input_type_int_bits_exceed_its_bits"] = ev["it"]["bits"] - ev["it"]["int"] - ev["it"]["sg"] < 0 and not ev["it"]["po2"]
      chk.violation(ident, {k: ev[k] for k in ev if k not in ("meta",)} | {"meta": m})
  for ev in events:
    chk.key(json.dumps([ev["meta"], ev["pattern"], ev["layer"], ev["k"]]))
  chk.sample({k: events[0][k] for k in ("meta", "pattern", "layer", "acc", "pre", "pregran")})
  return chk.finish()
