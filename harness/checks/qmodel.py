"""C18: reported bit widths vs concrete model tensors (QTypes.tla, Trace_QModel, drive_qmodel.py)."""
import json
from common import Check, run_tlc, sharded_events


def run(pid, tier, seed):
  chk = Check(pid, tier, seed)
  chk.rule = ("case = (layer kind dense/conv2d/conv1d/depthwise, weight quantizer, input quantizer, bias quantizer, one "
              "or two stacked layers, weight/input pattern: extremal sign-aligned or random); observed tensors come "
              "from intermediate sub-models of the real model; distinct = the tuple x layer")
  chk.assumptions = ["value lattices of reported types as in C16/C17 (QTypes.tla)",
                     "the estimator is judged on the input ranges actually fed to each layer"]
  mc = run_tlc("MC_QTypes", "MC_QTypes_" + tier, coverage=True)
  chk.add_mc("MC_QTypes_" + tier, mc, "type-level rules (multiplier, accumulator, bias adder) shared with C16/C17")
  rejects, errors, events = sharded_events(chk, "drive_qmodel.py", "-", "Trace_QModel", tier, seed, "qmodel")
  for e in errors:
    chk.violation({"clause": e["k"], "kind": e["meta"]["kind"]}, e)
  for ev, clauses in rejects:
    for cl in clauses:
      m = ev["meta"]
      ident = {"clause": cl, "kind": m["kind"], "layer": ev["layer"],
               "input_range_inside_unit_interval": bool(ev.get("range")) and max(abs(ev["range"][0]), abs(ev["range"][1])) < 1, "weights": m["wq"].split("_")[0].rstrip("0123456789iu"),
               "bias": m["bq"] != "none"}
      chk.violation(ident, {k: ev[k] for k in ev if k not in ("meta",)} | {"meta": m})
  for ev in events:
    chk.key(json.dumps([ev["meta"], ev["pattern"], ev["layer"], ev["k"]]))
  chk.sample({k: events[0][k] for k in ("meta", "pattern", "layer", "acc", "pre", "pregran")})
  return chk.finish()
