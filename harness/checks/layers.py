"""C11: quantized layers are drop-in (QLayer.tla, MC_QLayer, Trace_QLayer, drive_layers.py)."""
import json
from common import Check, run_tlc, sharded_events


def run(pid, tier, seed):
  chk = Check(pid, tier, seed)
  chk.rule = ("case = one call of a real quantized layer (class, geometry: kernel, stride, padding incl. causal, "
              "dilation, channels, depth multiplier, pool window; use_bias; activation quantizer) with recording proxy "
              "quantizers and integer-coded dyadic data; distinct = class x geometry x flags")
  chk.assumptions = ["recurrent layers: TLC judges the per-time-step application structure; equality with the stock "
                     "layer is a harness comparison (bitwise; 4 ulp for LSTM/GRU whose stock kernels fuse differently)",
                     "transpose convolution layers cannot execute in this environment (not covered)"]
  mc = run_tlc("MC_QLayer", "MC_QLayer", coverage=True)
  chk.add_mc("MC_QLayer", mc, "definitions of QLayer pinned by sanity theorems on all tiny tensors")
  rejects, errors, events = sharded_events(chk, "drive_layers.py", "-", "Trace_QLayer", tier, seed, "layers")
  for e in errors:
    chk.violation({"clause": "raises", "class": e["cls"], "with_quantizers": e["with_quantizers"]}, e)
  for ev, clauses in rejects:
    for cl in clauses:
      ident = {"clause": cl, "class": ev["cls"], "padding": ev["g"]["pad"], "kind": ev["kind"]}
      if ev["kind"] == "rnn":
        ident["implementation"] = ev.get("impl")
      chk.violation(ident, {k: ev[k] for k in ev if k not in ("x", "qk", "qk2", "pre") or len(json.dumps(ev[k])) < 600})
  for ev in events:
    chk.key(json.dumps([ev["cls"], ev["kind"], ev["g"], ev["usebias"], ev["hasact"], ev["ph"], ev["pw"], ev.get("dm"),
                        len(json.dumps(ev["x"]))]))
  chk.sample({k: events[0][k] for k in ("cls", "g", "usebias", "hasact", "applied", "reported", "stock")})
  return chk.finish()
