"""C03: power-of-two quantizers (QPo2.tla, MC_QPo2, Trace_QPo2, drive_po2.py)."""
import json
from common import Check, Machinery, run_tlc, check_coverage, sharded_conformance, undy

CLAUSES = {"not_pow2", "power_lost_in_float32_ste", "exp_out_of_range", "sign", "exceeds_max_value",
           "not_log2_nearest", "outside_minmax", "not_idempotent", "not_monotone", "exc", "nonfinite"}


def min_exp(c):
  need = 0 if (c["hasmv"] and c["mvk"] <= 0) else 1
  eff = c["bits"] - need - (1 if c["cls"] == "po2" else 0)
  return -2 ** eff


def identity(c, clause, ev):
  d = {"class": "quantized_" + c["cls"], "clause": clause, "mode": c["mode"], "leaky": c["sl"] > 0,
       "min_exp_le_-48": min_exp(c) <= -48}
  if ev is not None and "x" in ev:
    x = abs(undy(ev["x"]))
    if c["cls"] == "relu_po2" and ev["x"][0] < 0:
      x = x * 2.0 ** -c["sl"] if c["sl"] > 0 else 0.0      # the magnitude the negative branch quantizes: slope*|x| (0 without slope)
    d["x_below_epsilon"] = x < 1.0000000116860974e-07
    # exponent of the power of two that is being (re-)quantized: the magnitude fed to log2 for the nearest clause,
    # the first output for the idempotence clause
    if clause not in ("not_idempotent", "not_log2_nearest"):
      pass
    elif clause == "not_idempotent":
      d["pow2_exp"] = ev["y"][1] if ev["y"][0] in (1, -1) else None
    else:
      neg_leaky = c["cls"] == "relu_po2" and ev["x"][0] < 0 and c["sl"] > 0
      d["pow2_exp"] = (ev["x"][1] - (c["sl"] if neg_leaky else 0)) if ev["x"][0] in (1, -1) else None
  return d


def run(pid, tier, seed):
  chk = Check(pid, tier, seed)
  chk.rule = ("case = (configuration, binade, position class in the binade {2^k, just above, below sqrt2, at sqrt2, "
              "above, just below 2^(k+1)}, sign); the lattice is the reachable state set of MC_QPo2; witnesses: 2^k, "
              "sqrt(2)*2^k +-{1,2,8,400,700} ulp, max_value +-1 ulp, K.epsilon() +-1 ulp, 0, -0, denormals, plus "
              "seeded log-uniform float32 inputs")
  chk.assumptions = ["float32 ln(x)/ln(2): within 2^-14 (in log2) of a rounding boundary either exponent is admissible",
                     "input domain |x| <= 2^22 * largest output magnitude (DESIGN 5.3); quadratic_approximation is "
                     "outside the statement's quantifier"]
  mc = run_tlc("MC_QPo2", "MC_QPo2_" + tier, coverage=True)
  chk.add_mc("MC_QPo2_" + tier, mc, "Design => Prop (C03) on all log-grid cells x configurations")
  check_coverage(mc, ["Init", "Step"], "MC_QPo2")
  cfgs = None
  for p in mc.prints():
    if p and p[0] == "CFGS":
      cfgs = sorted(p[1]["__set__"], key=lambda c: json.dumps(c, sort_keys=True))
  if not cfgs:
    raise Machinery("MC_QPo2 printed no lattice")
  if tier == "quick":
    # the bounded model stops at 5 bits in the quick tier; the wide formats (exponents up to 2^63, where integer
    # arithmetic in the range reporters can wrap) are still driven through the real code on a thin slice
    cfgs = cfgs + [dict(cls=cls, bits=b, hasmv=h, mvk=0, sl=sl, mode=m)
                   for b in (6, 7, 8) for cls in ("po2", "relu_po2") for h in (False, True)
                   for sl in ((0,) if cls == "po2" else (0, 1)) for m in (("rnd",) if h else ("rnd", "floor"))]
  results, allev = sharded_conformance(chk, "drive_po2.py", cfgs, "Trace_QPo2", tier, seed, "po2")
  for r in results:
    if r[0] == "error":
      chk.violation(identity(r[1], r[2]["k"], None), {"cfg": r[1], "event": r[2]})
      continue
    _, c, ev, clauses = r
    for cl in clauses:
      if cl.startswith("DEV_"):
        chk.deviation(cl)
      elif cl in CLAUSES:
        chk.violation(identity(c, cl, ev), {"cfg": c, "clause": cl, "x": undy(ev["x"]), "y": undy(ev["y"]),
                                            "q(y)": undy(ev["yy"]), "event": ev})
  for si, (scfg, evs) in enumerate(allev):
    for ev in evs[:: max(1, len(evs) // 4000)]:
      chk.key((si, ev["c"], ev["x"][1], ev["x"][0] % 8, ev["x"][0] > 0))
    for ev in evs[:1]:
      chk.sample({"cfg": scfg[ev["c"] - 1], "x": undy(ev["x"]), "y": undy(ev["y"])})
  chk.cov["exhaustive"] = True
  chk.cov["configurations"] = len(cfgs)
  return chk.finish()
