"""C07: qnoise knob and QNoiseScheduler (QNoise.tla, MC_QNoise, MC_QKnob, Trace_QNoise, Trace_QKnob)."""
import json
import os
from common import (Check, Machinery, run_tlc, run_driver, run_drivers_parallel, simulate, scratch_root, read_ndjson,
                    check_coverage)


def hook_behaviours(behs):
  out = []
  for b in behs:
    st0 = b[0][2]["st"]
    steps = []
    for (label, args, state) in b[1:]:
      a = args[0] if label == "Hook" else "Call"
      steps.append((a, state["cnt"]))
    out.append({"sp": st0["sp"], "q0": st0["qs"], "steps": steps})
  return out


def knob_behaviours(behs):
  out = []
  for b in behs:
    q0 = b[0][2]["q"]
    acts = [("New", (q0["val"], q0["uv"]))]
    prev = b[0][2]
    for (label, args, state) in b[1:]:
      if label == "Build":
        acts.append(("Build", args[0]))
      elif label == "Rebuild":
        acts.append(("Rebuild", None))
      elif label == "UserUpdate":
        acts.append(("Update", args[0]))
      elif label == "Call":
        acts.append(("Call", None))
      else:
        raise Machinery("unknown action label %s" % label)
    out.append(acts)
  return out


def run(pid, tier, seed):
  chk = Check(pid, tier, seed)
  chk.rule = ("case = one behaviour: a hook sequence of the Keras callback protocol with schedule parameters (scheduler "
              "part) or an order of New/Build/Rebuild/Update/Call on one quantizer object of 7 knob-bearing classes "
              "(knob part); behaviours come from TLC -simulate of the model-checked specs plus real model.fit runs; "
              "distinct = distinct action sequences x parameters")
  chk.assumptions = ["integer schedule exponents (the exact rational schedule); non-integer exponents are not judged",
                     "factors k/4 in the knob life cycles so that float32 mixing is reproduced exactly"]
  root = scratch_root()
  import concurrent.futures as cf

  NS = 5

  def sharded(mode, bpath, tpath):
    """NS driver processes on slices of the behaviours; the traces (disjoint trace ids) are concatenated."""
    outs = run_drivers_parallel([("drive_qnoise.py", [mode, bpath, "%s.%d" % (tpath, k), tier, seed, k, NS]) for k in range(NS)])
    events, errs, traces = 0, [], 0
    with open(tpath, "w") as fh:
      for k in range(NS):
        i = json.loads(outs[k].strip().splitlines()[-1])
        events, traces = events + i["events"], traces + i["traces"]
        fh.write(open("%s.%d" % (tpath, k)).read())
        errs += json.load(open("%s.%d.err.json" % (tpath, k)))
    json.dump(errs, open(tpath + ".err.json", "w"))
    return {"events": events, "traces": traces}

  # the two parts are independent: model-check, simulate, drive and judge them concurrently, then account sequentially
  def sched_part():
    mc = run_tlc("MC_QNoise", "MC_QNoise_" + tier, coverage=True, workers=8)
    nsim = 250 if tier == "quick" else 3000
    behs, simres = simulate("MC_QNoise", "MC_QNoise_" + tier, nsim, 22, seed % 100000)
    hb = hook_behaviours(behs)
    bpath = os.path.join(root, "sched_beh.json")
    json.dump(hb, open(bpath, "w"))
    tpath = os.path.join(root, "sched.ndjson")
    info = sharded("sched", bpath, tpath)
    res = run_tlc("Trace_QNoise", "Trace_QNoise", workers=1, env={"TRACE_FILE": tpath})
    return mc, hb, tpath, info, res

  def knob_part():
    mck = run_tlc("MC_QKnob", "MC_QKnob", coverage=True, workers=4)
    kb, _ = simulate("MC_QKnob", "MC_QKnob", 210 if tier == "quick" else 2100, 7, seed % 100000 + 1)
    kbs = knob_behaviours(kb)
    bpath = os.path.join(root, "knob_beh.json")
    json.dump(kbs, open(bpath, "w"))
    tpath = os.path.join(root, "knob.ndjson")
    info = sharded("knob", bpath, tpath)
    res = run_tlc("Trace_QKnob", "Trace_QKnob", workers=1, env={"TRACE_FILE": tpath})
    return mck, kbs, tpath, info, res

  with cf.ThreadPoolExecutor(max_workers=2) as ex:
    f1, f2 = ex.submit(sched_part), ex.submit(knob_part)
    mc, hb, tpath, info, res = f1.result()
    mck, kbs, ktpath, kinfo, kres = f2.result()
  # ---- scheduler
  chk.add_mc("MC_QNoise_" + tier, mc, "scheduler over all callback sequences")
  check_coverage(mc, ["Init", "Hook", "Call"], "MC_QNoise")
  if res.distinct != info["events"] + 1:
    raise Machinery("scheduler trace not consumed: %d states / %d events\n%s" % (res.distinct, info["events"], res.out[-2000:]))
  chk.add_trace_run("Trace_QNoise", res, info["events"], info["traces"])
  evs = read_ndjson(tpath)
  for inv in res.invariant_violated:
    chk.violation({"part": "scheduler", "clause": "invariant_" + inv}, {"tlc": res.out[-3000:]})
  if res.property_violated:
    chk.violation({"part": "scheduler", "clause": "factor_decreased"}, {"tlc": res.out[-3000:]})
  for p in res.prints():
    if p and p[0] == "REJECT":
      tid = p[1]
      trace = [e for e in evs if e["t"] == tid]
      chk.violation({"part": "scheduler", "clause": p[4], "action": p[3],
                     "source": "replayed_behaviour" if tid < len(hb) else "model.fit"},
                    {"trace_id": tid, "line": p[2], "trace": trace[:40]})
  for b in hb:
    chk.key(json.dumps([b["sp"], [s[0] for s in b["steps"]]]))
  chk.sample({"params": hb[0]["sp"], "hooks": [s[0] for s in hb[0]["steps"]]})
  # ---- knob life cycle
  res, info, tpath = kres, kinfo, ktpath
  chk.add_mc("MC_QKnob", mck, "knob life cycle of one quantizer")
  check_coverage(mck, ["Init", "Build", "Rebuild", "UserUpdate", "Call"], "MC_QKnob")
  if res.distinct != info["events"] + 1:
    raise Machinery("knob trace not consumed: %d states / %d events\n%s" % (res.distinct, info["events"], res.out[-2000:]))
  chk.add_trace_run("Trace_QKnob", res, info["events"], info["traces"])
  evs = read_ndjson(tpath)
  for p in res.prints():
    if p and p[0] == "REJECT":
      ev = evs[p[2] - 1]
      for cl in p[4]:
        chk.violation({"part": "knob", "clause": cl, "class": ev["cls"], "use_ste": bool(ev.get("ste", 1))},
                      {"trace_id": p[1], "line": p[2], "trace": [e for e in evs if e["t"] == p[1]]})
  for e in json.load(open(tpath + ".err.json")):
    chk.violation({"part": "knob", "clause": "raises", "class": e["cls"], "action": e["a"]}, e)
  for j, b in enumerate(kbs):
    chk.key(json.dumps([j % 7, b]))
  chk.sample({"knob_life_cycle": kbs[0]})
  return chk.finish()
