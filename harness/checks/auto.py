"""C05: auto-scaled fixed-point quantizers (MC_QAuto, Trace_QAuto, drive_auto.py)."""
import json
import os
from common import (Check, run_tlc, run_drivers_parallel, judge_shards, scratch_root, read_ndjson, undy)

NSHARDS = 14


def identity(ev, clause):
  if clause == "scale_not_positive" and "s" in ev:
    # the non-positive scales belong to channels whose inputs are all zero?
    ev = dict(ev, zero_group=all(x[0] == 0 for x, sc in zip(ev["x"], ev["s"]) if sc[0] <= 0))
  return {"class": "quantized_" + ev["cls"], "clause": clause, "alpha": ev["ak"], "rank": len(ev["shape"]),
          "zero_group": bool(ev.get("zero_group")), "keep_negative": bool(ev["kn"]),
          "grouping": "default" if ev["sa"] in ([], [-1]) else "scale_axis" + ("+eps" if ev["eps"] else "")}


def run(pid, tier, seed):
  chk = Check(pid, tier, seed)
  chk.rule = ("case = one tensor call of quantized_bits/quantized_linear with alpha auto/auto_po2/frozen post-training "
              "scale: (class, mode, bits, integer, shape rank 1-4, scale_axis, elements_per_scale, exponent bounds, "
              "magnitude 2^-19..2^19, zero channel, equivariance shift); distinct = that tuple")
  chk.assumptions = ["outputs are compared as Ste32(x, scale*code*step) (float32 value of x + (xq - x))",
                     "equivariance judged for magnitudes >= 2^-8 without exponent bounds"]
  mc = run_tlc("MC_QAuto", "MC_QAuto_" + tier, coverage=True)
  chk.add_mc("MC_QAuto_" + tier, mc, "alpha='auto' rule on tiny integer tensors, exact rationals")
  root = scratch_root()
  prefix = os.path.join(root, "auto")
  outs = run_drivers_parallel([("drive_auto.py", ["-", prefix, tier, seed, s, NSHARDS]) for s in range(NSHARDS)])
  shards = []
  for s in range(NSHARDS):
    n = json.loads(outs[s].strip().splitlines()[-1])["events"]
    shards.append({"env": {"TRACE_FILE": "%s.%d.ndjson" % (prefix, s)}, "n": n})
  prints = judge_shards(chk, "Trace_QAuto", "Trace_QAuto", shards)
  for s in range(NSHARDS):
    evs = read_ndjson("%s.%d.ndjson" % (prefix, s)) if shards[s]["n"] else []
    for e in json.load(open("%s.%d.err.json" % (prefix, s))):
      chk.violation(identity(e["meta"], e["k"]), e)
    for p in prints[s]:
      if p and p[0] == "REJECT":
        ev = evs[p[1] - 1]
        for cl in p[2]:
          if cl.startswith("DEV_"):
            chk.deviation(cl)
            continue
          chk.violation(identity(ev, cl), {"clause": cl, "event": ev, "x": [undy(v) for v in ev["x"]],
                                           "y": [undy(v) for v in ev["y"]], "scale": [undy(v) for v in ev["s"]]})
    for ev in evs:
      chk.key((ev["cls"], ev["ak"], ev["bits"], ev["int"], tuple(ev["shape"]), tuple(ev["sa"]), tuple(ev["eps"]),
               ev["hasmin"], ev["hasmax"], ev["k"], ev["zero_group"]))
    for ev in evs[:1]:
      chk.sample({k: ev[k] for k in ("cls", "ak", "bits", "int", "shape", "sa", "eps", "args")} |
                 {"x": [undy(v) for v in ev["x"]][:6], "y": [undy(v) for v in ev["y"]][:6],
                  "scale": [undy(v) for v in ev["s"]][:6]})
  return chk.finish()
