"""C16 / C17: qtools multiplier, accumulator and adder types (QTypes.tla, MC_QTypes, Trace_QTypes)."""
import json
import os
from common import Check, Machinery, run_tlc, sharded_events, scratch_root

CLAUSES = {"C16": {"earlier_result_changed_by_a_later_call", "zero_not_representable", "product_not_representable", "wrong_implementation_kind",
                   "negated_most_negative_code_not_representable", "alphabet_wider_than_reported_bits",
                   "float_product_not_representable"},
           "C17": {"sum_not_representable", "adder_sum_not_representable", "merge_add_sum_not_representable",
                   "merge_output_does_not_contain_operand"}}


def opclass(o):
  if o["src"] in ("po2", "relu_po2"):
    return o["src"] + ("(max_value<=1)" if o["hasmv"] and o["mvm"] * 2.0 ** o["mvk"] <= 1 else "(max_value>1)" if o["hasmv"] else "")
  if o["src"] == "relu" and o["bits"] == 1 and o["int"] == 1:
    return "relu(1,1)"
  return o["src"] + ("-unsigned" if o["src"] == "bits" and not o["kn"] else "")


def tclass(t):
  kind = "po2" if t["po2"] else {2: "ternary", 3: "binary", 4: "binary01"}.get(t["mode"], "fixed")
  return kind + ("-signed" if t["sg"] else "-unsigned")


def run(pid, tier, seed):
  chk = Check(pid, tier, seed)
  chk.rule = ("case = (weight operand type, input operand type) over the lattice of MC_QTypes (all bit widths up to the "
              "bound, integer bits 0..2, signedness, po2 max_value in {none, 1/2, 1, 4}, ternary, binary, binary01), "
              "for C17 additionally x N x use_bias and adder operand pairs; distinct = the tuple")
  chk.assumptions = ["value lattices: operands = what the QKeras quantizer emits (C01/C03 semantics); reported "
                     "fixed-point type = two's-complement codes with frac = max(0, bits-sign-int_bits); reported po2 "
                     "type = {0} u {+-2^e, e in get_exp interval}", "floating-point operands (fp16 / fp32): only the kind and the width of the reported float type are judged"]
  mc = run_tlc("MC_QTypes", "MC_QTypes_" + tier, coverage=True)
  chk.add_mc("MC_QTypes_" + tier, mc, "transcribed rules vs value lattices on every operand pair")
  ops = None
  for p in mc.prints():
    if p and p[0] == "OPERANDS":
      ops = sorted(p[1]["__set__"], key=lambda c: json.dumps(c, sort_keys=True))
  if not ops:
    raise Machinery("no operand lattice")
  for o in ops:
    o["hasmv"] = int(o["hasmv"])
  opath = os.path.join(scratch_root(), "operands.json")
  json.dump(ops, open(opath, "w"))
  rejects, errors, events = sharded_events(chk, "drive_qtypes.py", opath, "Trace_QTypes", tier, seed, "qtypes")
  mine = CLAUSES[pid]
  for e in errors:
    if (pid == "C16") == (e["op"] in ("mul", "fmul")):
      oc = (lambda o: o["src"]) if e["op"] == "fmul" else opclass
      chk.violation({"clause": "raises", "op": e["op"], "w": oc(e["w"]), "x": oc(e["x"])}, e)
  for ev, clauses in rejects:
    part = next((c[5:] for c in clauses if c.startswith("PART_")), None)      # which part of the property fails
    for cl in clauses:
      if cl.startswith("PART_"):
        continue
      if cl.startswith("DEV_"):
        if (pid == "C16") == (ev["op"] in ("mul", "fmul")):
          chk.deviation(cl + ":" + ev["op"])
          if os.environ.get("VERIF_DEBUG"):
            print("DEV", json.dumps(ev))
        continue
      if cl not in mine:
        continue
      if ev["op"] == "alias":
        ident = {"clause": cl}
      elif ev["op"] == "fmul":
        ident = {"clause": cl, "weight_float_bits": ev["wf"], "input_float_bits": ev["xf"]}
      elif ev["op"] == "mul":
        both = opclass(ev["w"]) + " " + opclass(ev["x"])
        ident = {"clause": cl, "kind": ev["kind"], "stochastic_twin": bool(ev.get("twin")), "po2_max_value_le_1": "max_value<=1" in both,
                 "relu_1_1": "relu(1,1)" in both,
                 "operand_kinds": "x".join(sorted({opclass(ev["w"]).split("(")[0].split("-")[0],
                                                   opclass(ev["x"]).split("(")[0].split("-")[0]}))}
      elif ev["op"] == "acc":
        ident = {"clause": cl, "multiplier_max_is_a_power_of_two": bool(ev["m"]["po2"]) or ev["m"]["mode"] in (2, 3),
                 "bias": bool(ev["bias"]), "n_is_pow2": ev["n"] & (ev["n"] - 1) == 0}
      elif ev["op"] == "merge":
        fr = lambda t: t["bits"] - t["sg"] - t["int"]
        pm = lambda t: bool(t["po2"]) or t["mode"] in (2, 3)
        ident = {"clause": cl, "merge": ev["kind"], "inputs": ev.get("n_inputs", 2), "operand_whose_max_is_a_power_of_two": pm(ev["a"]) or pm(ev["b"]),
                 "integer_widths_differ": ev["a"]["int"] != ev["b"]["int"], "signedness_differs": ev["a"]["sg"] != ev["b"]["sg"]}
      else:
        pm = lambda t: bool(t["po2"]) or t["mode"] in (2, 3)
        ident = {"clause": cl, "operand_whose_max_is_a_power_of_two": pm(ev["a"]) or pm(ev["b"]),
                 "po2_plus_binary01": bool(ev["a"]["po2"]) and ev["b"]["mode"] == 4}
      if part is not None and ev["op"] in ("acc", "add", "merge"):
        ident["fails"] = part             # "range": an end value does not fit; "step": resolution coarser than an operand
      chk.violation(ident, {"clause": cl, "event": ev})
  for ev in events:
    if (pid == "C16") == (ev["op"] in ("mul", "alias", "fmul")) and ev["op"] != "alias":
      chk.key(json.dumps(ev, sort_keys=True))
  chk.sample(next(e for e in events if (pid == "C16") == (e["op"] == "mul")))
  chk.cov["exhaustive"] = True
  chk.cov["operand_types"] = len(ops)
  return chk.finish()
