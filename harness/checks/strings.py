"""C10: quantizer strings (SafeEval.tla, MC_SafeEval, Trace_SafeEval; print direction through Trace_QRoundTrip)."""
import json
import os
from common import Check, Machinery, run_tlc, run_driver, scratch_root, read_ndjson, check_coverage
from checks import roundtrip


def run(pid, tier, seed):
  chk = Check(pid, tier, seed)
  chk.rule = ("parse direction: case = token sequence (positional / keyword x literal kind) of length <= MaxLen, all of "
              "them, rendered with concrete literals; print/text direction: case = (configuration of the QSchema "
              "lattice, route in {str(q), three renderings of the equivalent Python call}); distinct = sequence / "
              "(cfg, route)")
  chk.assumptions = ["the Python meaning of a call text is Python's own evaluation of it with a recording callable",
                     "function equality after re-parsing is decided on the probe family of C09"]
  root = scratch_root()
  # ---- parse direction
  mc = run_tlc("MC_SafeEval", "MC_SafeEval_" + tier, coverage=True)
  chk.add_mc("MC_SafeEval_" + tier, mc, "parser result = Python call result for all token sequences")
  maxlen = 3 if tier == "quick" else 4
  tpath = os.path.join(root, "se.ndjson")
  out, _ = run_driver("drive_safeeval.py", [maxlen, tpath, tier, seed])
  info = json.loads(out.strip().splitlines()[-1])
  if info["sequences"] != mc.distinct:
    raise Machinery("driver enumerated %d sequences, TLC %d states" % (info["sequences"], mc.distinct))
  res = run_tlc("Trace_SafeEval", "Trace_SafeEval", workers=1, env={"TRACE_FILE": tpath})
  if res.distinct != info["events"] + 1:
    raise Machinery("trace not consumed\n" + res.out[-2000:])
  chk.add_trace_run("Trace_SafeEval", res, info["events"])
  evs = read_ndjson(tpath)
  for p in res.prints():
    if p and p[0] == "REJECT":
      ev = evs[p[1] - 1]
      for cl in p[2]:
        kinds = sorted({t["kind"] for t in ev.get("toks", [])})
        ident = {"direction": "parse", "clause": cl, "kinds": "+".join(kinds) if cl.startswith("outside") else None,
                 "layout": ev.get("layout")}
        if cl.startswith("outside"):
          lists = [t for t in ev.get("toks", []) if t["kind"] in ("pylist", "qlist")]
          ident["list_as"] = ("keyword" if all(t["kw"] for t in lists) else "positional") if lists else None
        chk.violation(ident, {"clause": cl, "event": ev})
  for ev in evs[:: max(1, len(evs) // 3000)]:
    chk.key(json.dumps(ev.get("toks", ev.get("text"))))
  chk.sample({"text": evs[40]["text"], "got": evs[40]["got"], "python": evs[40]["py"]})
  # ---- print / text direction on the configuration lattice
  mcr, cfgs = roundtrip.lattice(tier)
  chk.add_mc("MC_QRoundTrip_" + tier, mcr, "str(q) and call texts are stuttering steps on the configuration")
  metas, rejects = roundtrip.replay(chk, cfgs, tier, seed, mode="text")
  seen = set()
  for m in metas.values():
    if "construct_exc" in m:
      continue                      # C09 reports constructor problems
    chk.key((m["cfg"], tuple(m["seq"])))
  for p in rejects:
    _, t, line, where, clause = p[:5]
    if where == "Registry":
      continue
    m = metas[t]
    cfg = cfgs[m["cfg"]]
    step = next((s for s in m["steps"] if s["route"] == where), {})
    nondef = sorted(step.get("diff", []))
    functional = [f for f in nondef if f not in roundtrip.NON_FUNCTIONAL]       # identity: the fields that can change outputs
    ident = {"direction": "print" if where in ("RT_Str", "RT_StrMut") else "text", "class": cfg["cls"], "clause": clause,
             "fields": functional if functional else nondef, "list_valued_option": any(str(v).startswith("l:") for v in cfg["opts"].values()),
             "array_alpha": str(cfg["opts"].get("alpha", "")).startswith("v:")}
    key = json.dumps([ident, m["cfg"], where])
    if key in seen:
      continue
    seen.add(key)
    if clause != "raises" and nondef and set(nondef) <= roundtrip.NON_FUNCTIONAL:
      chk.deviation("nonfunctional_option_lost:" + ",".join(nondef))
      continue
    chk.violation(ident, {"cfg": cfg, "sequence": m["seq"], "steps": m["steps"]})
  chk.cov["configurations"] = len(cfgs)
  return chk.finish()
