"""C13: save / clone / reload of quantized models (MC_ModelRT, Trace_ModelRT, drive_modelrt.py)."""
import json
import os
from common import (Check, Machinery, run_tlc, run_drivers_parallel, judge_shards, scratch_root, check_coverage)

NSHARDS = 14


def run(pid, tier, seed):
  chk = Check(pid, tier, seed)
  chk.rule = ("case = (quantized layer class of the custom-object table, weight-quantizer variant incl. scale_axis and "
              "exponent bounds, sequence of routes json/clone/h5 incl. a frozen-layer history); models carry "
              "discriminating weights; distinct = (class, variant, sequence)")
  chk.assumptions = ["predictions compared bitwise on fixed dyadic probe inputs; quantizer configurations compared as "
                     "sorted get_config() JSON", "no user-supplied custom objects are passed to any route"]
  mc = run_tlc("MC_ModelRT", "MC_ModelRT_" + tier, coverage=True)
  chk.add_mc("MC_ModelRT_" + tier, mc, "routes are stuttering steps; compositions")
  check_coverage(mc, ["Init", "RT"], "MC_ModelRT")
  lat = None
  for p in mc.prints():
    if p and p[0] == "LATTICE":
      lat = {"classes": sorted(p[1]["__set__"]), "variants": sorted(p[2]["__set__"])}
  if not lat:
    raise Machinery("no lattice")
  root = scratch_root()
  lpath = os.path.join(root, "modelrt_lat.json")
  json.dump(lat, open(lpath, "w"))
  prefix = os.path.join(root, "modelrt")
  outs = run_drivers_parallel([("drive_modelrt.py", [lpath, prefix, tier, seed, s, NSHARDS]) for s in range(NSHARDS)])
  shards, metas = [], {}
  for s in range(NSHARDS):
    info = json.loads(outs[s].strip().splitlines()[-1])
    shards.append({"env": {"TRACE_FILE": "%s.%d.ndjson" % (prefix, s)}, "n": info["events"], "traces": info["traces"]})
    for m in json.load(open("%s.%d.meta.json" % (prefix, s))):
      metas[m["t"]] = m
  prints = judge_shards(chk, "Trace_ModelRT", "Trace_ModelRT", shards)
  for m in metas.values():
    if "construct_exc" in m:
      chk.violation({"clause": "model_cannot_be_built_or_predicted", "class": m["cls"], "variant": m["variant"]}, m)
    chk.key((m["cls"], m["variant"], tuple(m["seq"])))
  seen = set()
  for ps in prints:
    for p in ps:
      if p and p[0] == "REJECT":
        _, t, line, where, clause = p[:5]
        m = metas[t]
        ident = {"clause": clause, "class": m["cls"], "variant": m["variant"], "route": where,
                 "frozen": m["seq"][0] == "frozen"}
        key = json.dumps(ident)
        if key in seen:
          continue
        seen.add(key)
        chk.violation(ident, m)
  ex = next(iter(metas.values()))
  chk.sample({k: ex[k] for k in ("cls", "variant", "seq", "steps")})
  return chk.finish()
