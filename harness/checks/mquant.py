"""C12: model_quantize (ModelGraph.tla, MC_ModelGraph, Trace_ModelGraph, drive_mquant.py)."""
import json
from common import Check, run_tlc, sharded_events, check_coverage


def run(pid, tier, seed):
  chk = Check(pid, tier, seed)
  chk.rule = ("case = (model of 1-3 layers over {Dense, Conv2D, DepthwiseConv2D} x use_bias x activation, Activation, ReLU, "
              "LeakyReLU, BatchNormalization; dictionary with name and class entries over {absent, {}, A, B, string, "
              "activation map, BN record}; transfer_weights); TLC enumerates all models <= 2 layers x all dictionaries, "
              "the driver samples that space (and 3-layer models) on the real function; distinct = (model, dict)")
  chk.assumptions = ["quantizers are compared through str() of the quantizer the Q class itself builds from the string",
                     "extended alphabet (Conv1D, separable, recurrent, pooling; forked topologies merged by Add / "
                     "Concatenate), user-defined layers: MC_ModelGraphX / Trace_ModelGraphX; Conv2DTranspose is not covered"]
  mc = run_tlc("MC_ModelGraph", "MC_ModelGraph_" + tier, coverage=True)
  chk.add_mc("MC_ModelGraph_" + tier, mc, "frame conditions of the transcribed rewriting on all models x dictionaries")
  check_coverage(mc, ["Init", "Choose"], "MC_ModelGraph")
  rejects, errors, events = sharded_events(chk, "drive_mquant.py", "-", "Trace_ModelGraph", tier, seed, "mquant")
  for ev, clauses in rejects:
    kinds = sorted({l["kind"] for l in ev["model"]})
    for cl in clauses:
      ident = {"clause": cl, "has_LeakyReLU": "LeakyReLU" in kinds}
      if cl == "conversion_raises":
        ident["exception"] = ev.get("exc_text", "")[:60]
      chk.violation(ident, ev)
  mcx = run_tlc("MC_ModelGraphX", "MC_ModelGraphX", coverage=True)
  chk.add_mc("MC_ModelGraphX", mcx, "frame conditions on the extended alphabet (Conv1D, separable, recurrent, pooling)")
  check_coverage(mcx, ["Init", "Choose"], "MC_ModelGraphX")
  rejx, errx, evx = sharded_events(chk, "drive_mquantx.py", "-", "Trace_ModelGraphX", tier, seed, "mquantx")
  for ev, clauses in rejx:
    for cl in clauses:
      ident = {"clause": cl, "alphabet": "extended"}
      if "adaptive" in ev:
        ident["kinds"] = "Activation->QAdaptiveActivation"
      elif cl in ("wrong_layer_class", "wrong_weight_quantizers", "wrong_activation"):
        ident["kinds"] = ",".join(sorted({l["kind"] for l in ev["model"]}))
      if cl == "conversion_raises":
        ident["exception"] = ev.get("exc_text", "")[:60]
      chk.violation(ident, ev)
  events = events + evx
  for ev in events:
    chk.key(json.dumps([ev.get("model", "adaptive"), ev.get("dict", ""), ev["transfer"]], sort_keys=True))
  chk.sample({k: events[0][k] for k in ("model", "dict", "res")})
  return chk.finish()
