"""C12: model_quantize (ModelGraph.tla, MC_ModelGraph, Trace_ModelGraph, drive_mquant.py)."""
import json
from common import Check, run_tlc, sharded_events, check_coverage


def run(pid, tier, seed):
  chk = Check(pid, tier, seed)
  chk.rule = ("case = (model of 1-3 layers over {Dense, Conv2D, DepthwiseConv2D} x use_bias x activation, Activation, ReLU, "
              "LeakyReLU, BatchNormalization; dictionary with name and class entries over {absent, {}, A, B, string, "
              "activation map, BN record}; transfer_weights); TLC enumerates all models <= 2 layers x all dictionaries, "
              "the driver samples that space (and 3-layer models) on the real function; distinct = (model, dict)")
  chk.assumptions = ["quantizers are compared through str() of the quantizer the Q class itself builds from the string",
                     "separable / recurrent / pooling layers are not in the alphabet yet"]
  mc = run_tlc("MC_ModelGraph", "MC_ModelGraph_" + tier, coverage=True)
  chk.add_mc("MC_ModelGraph_" + tier, mc, "frame conditions of the transcribed rewriting on all models x dictionaries")
  check_coverage(mc, ["Init", "Choose"], "MC_ModelGraph")
  rejects, errors, events = sharded_events(chk, "drive_mquant.py", "-", "Trace_ModelGraph", tier, seed, "mquant")
  for ev, clauses in rejects:
    kinds = sorted({l["kind"] for l in ev["model"]})
    for cl in clauses:
      ident = {"clause": cl, "has_LeakyReLU": "LeakyReLU" in kinds}
      if cl == "conversion_raises":
        ident["exception"] = ev.get("exc_text", "")[:60]
      chk.violation(ident, ev)
  for ev in events:
    chk.key(json.dumps([ev["model"], ev["dict"], ev["transfer"]], sort_keys=True))
  chk.sample({k: events[0][k] for k in ("model", "dict", "res")})
  return chk.finish()
