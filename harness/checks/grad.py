"""C06: gradients (QGrad.tla, MC_QGrad, Trace_QGrad, drive_grad.py)."""
import json
from common import Check, Machinery, run_tlc, check_coverage, sharded_conformance, undy


def identity(c, clause):
  d = {"family": c["fam"], "clause": clause, "use_ste": bool(c.get("ste", 1))}
  d["class"] = c.get("cls") or c.get("kind")
  return d


def run(pid, tier, seed):
  chk = Check(pid, tier, seed)
  chk.rule = ("case = (configuration incl. use_ste and qnoise_factor, input cell); fixed-point cells are the reachable "
              "states of MC_QGrad, po2 / binary / ternary / auto-scale inputs are log-grid and random points; the "
              "gradient of each witness is taken with tf.GradientTape; distinct = (cfg, cell mod 4, sign, region)")
  chk.assumptions = ["gradient at a kink of the surrogate (0, clip point, |x| = 1) may be either one-sided value",
                     "transcendental surrogates (tanh') are compared with the gradient of the same TF op"]
  mc = run_tlc("MC_QGrad", "MC_QGrad_" + tier, coverage=True)
  chk.add_mc("MC_QGrad_" + tier, mc, "derivative of the evaluated expression = surrogate derivative on all cells")
  check_coverage(mc, ["Init", "Step"], "MC_QGrad")
  # configuration lattice for the driver: the QFixed lattice of C01 (alpha None) with ste/f variants
  mcf = run_tlc("MC_QFixed", "MC_QFixed_quick")
  base = None
  for p in mcf.prints():
    if p and p[0] == "CFGS":
      base = p[1]["__set__"]
  if not base:
    raise Machinery("no lattice")
  cfgs = []
  maxb = 4 if tier == "quick" else 8
  for c in sorted(base, key=lambda c: json.dumps(c, sort_keys=True)):
    if c["bits"] > maxb or c["int"] < 0:
      continue
    c = dict(c, fam="fixed", al_none=True)
    if c["cls"] in ("bits", "relu"):
      for f in ([1, 0], [1, -1], [0, 0]):
        cfgs.append(dict(c, ste=1, f=f))
      cfgs.append(dict(c, ste=0, f=[1, 0]))
      cfgs.append(dict(c, ste=0, f=[1, -1]))
    else:
      cfgs.append(dict(c, ste=1, f=[1, 0]))
    # stochastic rounding in the training phase is still a straight-through estimator: same gradient
    # (tanh / sigmoid clip AFTER the rounding and have no outer straight-through wrapper: whether the top cell is
    # clipped - gradient 0 - then depends on the random draw, so they are left out of this variant)
    if c["bits"] <= 3 and c["cls"] in ("bits", "linear", "relu"):
      cfgs.append(dict(c, ste=1, f=[1, 0], sr=1))
    # ... and with stochastic rounding configured but the training phase off (deterministic rounding, every class)
    if c["bits"] <= 3:
      cfgs.append(dict(c, ste=1, f=[1, 0], sr=2))
  for cls in ("po2", "relu_po2"):
    for bits in (3, 4, 6):
      for mv in (None, 0, 2, -1):
        for sl in ((0,) if cls == "po2" else (0, 1, 2)):
          for ste in (1, 0):
            cfgs.append({"fam": "po2", "cls": cls, "bits": bits, "hasmv": mv is not None, "mvk": mv or 0, "sl": sl,
                         "ste": ste, "f": [1, 0]})
  for kind in ("binary", "ternary", "stochastic_binary", "stochastic_ternary"):
    for alpha in (None, 1.0, 0.5, 2.0, "auto", "auto_po2"):
      if kind.startswith("stochastic") and alpha not in (None, "auto", "auto_po2"):
        continue
      cfgs.append({"fam": "ref" if alpha is None else "one", "kind": kind, "alpha": str(alpha)})
  for alpha in (None, "auto"):
    cfgs.append({"fam": "one", "kind": "bernoulli", "alpha": str(alpha)})
  for bits in (4, 8):
    for integer in (0, 1, 3):
      for alpha in ("auto", "auto_po2"):
        cfgs.append({"fam": "one", "kind": "bits_auto", "bits": bits, "int": integer, "alpha": alpha})
        # quantized_linear with a data-dependent scale: the scale is a constant of the backward pass, gradient 1
        cfgs.append({"fam": "zo", "kind": "linear_auto", "bits": bits, "int": integer, "alpha": alpha})
  results, allev = sharded_conformance(chk, "drive_grad.py", cfgs, "Trace_QGrad", tier, seed, "grad")
  for r in results:
    if r[0] == "error":
      chk.violation(identity(r[1], r[2]["k"]), {"cfg": r[1], "event": r[2]})
    else:
      _, c, ev, clauses = r
      for cl in clauses:
        chk.violation(identity(c, cl), {"cfg": c, "clause": cl, "x": undy(ev["x"]), "grad": undy(ev["g"]),
                                        "surrogate_grad_ref": undy(ev["r"])})
  for si, (scfg, evs) in enumerate(allev):
    for ev in evs:
      chk.key((si, ev["c"], ev["x"][0] % 8, ev["x"][0] > 0, ev["g"][0], ev["g"][1]))
    for ev in evs[:1]:
      chk.sample({"cfg": scfg[ev["c"] - 1], "x": undy(ev["x"]), "grad": undy(ev["g"])})
  chk.cov["exhaustive"] = True
  chk.cov["configurations"] = len(cfgs)
  return chk.finish()
