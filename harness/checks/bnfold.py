"""C15: batch-norm folding (BNFold.tla, MC_BNFold, Trace_BNFold, drive_bnfold.py)."""
import json
from common import Check, run_tlc, sharded_events


def run(pid, tier, seed):
  chk = Check(pid, tier, seed)
  chk.rule = ("case = one inference call of a real folded layer (conv / depthwise, folding mode, use_bias, scale, "
              "center, geometry, with / without quantizers) on integer-coded dyadic data with exact rsqrt statistics, "
              "or one unfold_model / model_quantize(enable_bn_folding) run on a generated (branched) model; distinct "
              "= the tuple")
  chk.assumptions = ["batch-norm statistics chosen so that rsqrt(var + eps) is an exact power of two (bit-exact "
                     "comparison); prediction equality of whole models is a recorded harness comparison"]
  mc = run_tlc("MC_BNFold", "MC_BNFold", coverage=True)
  chk.add_mc("MC_BNFold", mc, "folding algebra = conv followed by batch normalisation on all tiny instances")
  rejects, errors, events = sharded_events(chk, "drive_bnfold.py", "-", "Trace_BNFold", tier, seed, "bnfold")
  for e in errors:
    chk.violation({"clause": "raises", "op": e["op"], "center": e.get("center", True)}, e)
  for ev, clauses in rejects:
    for cl in clauses:
      if ev["kind"] == "layer":
        ident = {"clause": cl, "depthwise": bool(ev["dw"]), "mode": ev.get("mode"), "quantizers": bool(ev["hasq"])}
      else:
        ident = {"clause": cl, "op": ev["op"], "branch": bool(ev.get("branch"))}
      chk.violation(ident, {k: v for k, v in ev.items() if len(json.dumps(v)) < 500})
  for ev in events:
    chk.key(json.dumps([ev["kind"], ev["dw"], ev.get("mode"), ev["g"], ev["usebias"], ev["hasq"], ev.get("center"), ev.get("scale"),
                        ev["op"], ev.get("branch")]))
  chk.sample({k: events[0].get(k) for k in ("kind", "dw", "mode", "g", "usebias", "hasq", "J", "fb", "op", "same")})
  return chk.finish()
