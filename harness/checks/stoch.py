"""C08: stochastic rounding (QStoch.tla, MC_QStoch, Trace_QStoch, drive_stoch.py)."""
import json
from common import Check, Machinery, run_tlc, check_coverage, sharded_conformance, undy


def identity(c, clause, extra=None):
  d = {"family": c["fam"], "clause": clause, "class": c.get("cls") or c.get("kind")}
  if extra:
    d.update(extra)
  return d


def run(pid, tier, seed):
  chk = Check(pid, tier, seed)
  chk.rule = ("case = (configuration, input cell, learning phase, uniform draw u); tf.random.uniform is replaced by the "
              "constant draw so every call is a deterministic function that TLC predicts; fixed-point cells are the "
              "states of MC_QStoch; distinct = (cfg, cell mod 4, side, phase, draw)")
  chk.assumptions = ["tf.random.uniform is uniform on [0,1): unbiasedness is decided through the mechanism "
                     "'ceil iff frac >= u' (exact identity in MC_QStoch), not by sampling",
                     "training-phase outputs of stochastic_binary/ternary (temperature sigmoids) are not judged here"]
  mc = run_tlc("MC_QStoch", "MC_QStoch_" + tier, coverage=True)
  chk.add_mc("MC_QStoch_" + tier, mc, "adjacent codes, fixed codes, exact unbiasedness identity on all cells x draws")
  check_coverage(mc, ["Init", "Step"], "MC_QStoch")
  mcf = run_tlc("MC_QFixed", "MC_QFixed_quick")
  base = None
  for p in mcf.prints():
    if p and p[0] == "CFGS":
      base = p[1]["__set__"]
  if not base:
    raise Machinery("no lattice")
  cfgs = []
  maxb = 4 if tier == "quick" else 6
  for c in sorted(base, key=lambda c: json.dumps(c, sort_keys=True)):
    if c["bits"] > maxb or c["bits"] < 2 or c["int"] < 0 or c["clip"] != "q":
      continue
    if c["bits"] - (c["kn"] if c["cls"] in ("bits", "linear") else 0) < 1:
      continue
    cfgs.append(dict(c, fam="fixed", al_none=True))
  for cls in ("po2", "relu_po2"):
    for bits in (3, 4, 5):
      for mv in (None, 2, 0):
        cfgs.append({"fam": "po2", "cls": cls, "bits": bits, "hasmv": mv is not None, "mvk": mv or 0, "sl": 0,
                     "mode": "rnd"})
  for i in (-1, 0, 1):                              # the one-bit sign format of quantized_linear: codes +-2^(integer-1)
    cfgs.append({"fam": "sign1", "int": i})
  for temp in ([3, 1], [1, 1], [1, -1]):           # temperature 6.0, 2.0, 0.5
    cfgs.append({"fam": "sb", "kind": "stochastic_binary", "alpha": "None", "temp": temp})
  for kind in ("po2_quad", "relu_po2_quad", "po2_floor", "relu_po2_floor"):
    for bits in (3, 4, 5):
      for mv in (None, 2, 0):
        cfgs.append({"fam": "eq", "kind": kind, "alpha": "None", "bits": bits, "hasmv": mv is not None, "mvk": mv or 0})
  for bits in (3, 4, 5):
    for mv in (None, 2, 0):
      cfgs.append({"fam": "eq", "kind": "relu_po2_leaky", "alpha": "None", "bits": bits, "hasmv": mv is not None, "mvk": mv or 0})
  for u in (1, 2, 8):                       # the iteration count of the ternary scale is an option of both classes
    for alpha in ("auto", "auto_po2"):
      cfgs.append({"fam": "eq", "kind": "stochastic_ternary", "alpha": alpha, "unrolls": u})
  for kind in ("binary_sr", "stochastic_binary", "stochastic_ternary", "ternary_sr"):
    for alpha in ("None", "1.0", "auto", "auto_po2"):
      if kind == "ternary_sr" and not alpha.startswith("auto"):
        continue      # documented contract: ternary asserts no stochastic rounding for constant alpha (quantizers.py:1706)
      cfgs.append({"fam": "eq", "kind": kind, "alpha": alpha})
  results, allev = sharded_conformance(chk, "drive_stoch.py", cfgs, "Trace_QStoch", tier, seed, "stoch")
  for r in results:
    if r[0] == "error":
      e = r[2]
      chk.violation(identity(r[1], e["k"], {"phase": e.get("phase"), "rank": e.get("rank")}), {"cfg": r[1], "event": e})
    else:
      _, c, ev, clauses = r
      for cl in clauses:
        chk.violation(identity(c, cl), {"cfg": c, "clause": cl, "phase": ev["ph"], "draw": undy(ev["u"]),
                                        "x": undy(ev["x"]), "y": undy(ev["y"]), "deterministic": undy(ev["yd"])})
  for si, (scfg, evs) in enumerate(allev):
    for ev in evs[:: max(1, len(evs) // 3000)]:
      chk.key((si, ev["c"], ev["ph"], ev["u"][0], ev["u"][1], ev["x"][0] % 8, ev["x"][1] % 4))
    for ev in evs[:1]:
      chk.sample({"cfg": scfg[ev["c"] - 1], "phase": ev["ph"], "draw": undy(ev["u"]), "x": undy(ev["x"]),
                  "y": undy(ev["y"])})
  chk.cov["exhaustive"] = True
  chk.cov["configurations"] = len(cfgs)
  return chk.finish()
