"""Driver for C08: stochastic rounding with the uniform draw under control.

usage: drive_stoch.py <cfgs.json> <out_prefix> <tier> <seed> <shard> <nshards>
"""
import json
import random
import sys
import numpy as np
from qk import tf, Q, make_fixed, f32, up
from common import dy, undy, write_ndjson
from drive_fixed import cell_inputs

K = tf.keras.backend
DRAW = [0.5]
_real_uniform = tf.random.uniform


def fake_uniform(shape, minval=0, maxval=None, dtype=tf.float32, seed=None, name=None):
  u = tf.fill(shape, tf.constant(DRAW[0], dtype=tf.float32))
  if maxval is None:
    return tf.cast(u, dtype)
  minval = tf.cast(minval, tf.float32)
  maxval = tf.cast(maxval, tf.float32)
  return tf.cast(minval + u * (maxval - minval), dtype)


Q.tf.random.uniform = fake_uniform
tf.random.uniform = fake_uniform

DRAWS = [0.0, 0.0625, 0.125, 0.25, 0.4375, 0.5, 0.5625, 0.75, 0.875, 0.9375, float(np.float32(1 - 2.0 ** -24))]


def make(c, stochastic):
  fam = c["fam"]
  if fam == "fixed":
    return make_fixed(c, use_stochastic_rounding=stochastic)
  if fam == "sign1":
    return Q.quantized_linear(1, c["int"], keep_negative=True, use_stochastic_rounding=stochastic)
  if fam == "po2":
    mv = 2.0 ** c["mvk"] if c["hasmv"] else None
    if c["cls"] == "po2":
      return Q.quantized_po2(c["bits"], max_value=mv, use_stochastic_rounding=stochastic)
    return Q.quantized_relu_po2(c["bits"], max_value=mv, use_stochastic_rounding=stochastic)
  k = c["kind"]
  if c["fam"] == "sb":     # stochastic_binary with the hard sigmoid: an exactly predictable training-phase mechanism
    from common import undy
    return (Q.stochastic_binary(alpha=None, temperature=undy(c["temp"]), use_real_sigmoid=False) if stochastic
            else Q.binary(alpha=None))
  if k == "relu_po2_leaky":        # the leaky branch takes the same options as the positive one
    mv = 2.0 ** c["mvk"] if c["hasmv"] else None
    return Q.quantized_relu_po2(c["bits"], max_value=mv, negative_slope=0.25, use_stochastic_rounding=stochastic)
  if k in ("po2_floor", "relu_po2_floor"):  # log2_rounding='floor': inference = the deterministic configuration
    mv = 2.0 ** c["mvk"] if c["hasmv"] else None
    ctor = Q.quantized_po2 if k == "po2_floor" else Q.quantized_relu_po2
    return ctor(c["bits"], max_value=mv, use_stochastic_rounding=stochastic, log2_rounding="floor")
  if k in ("po2_quad", "relu_po2_quad"):    # quadratic_approximation: only "inference = the deterministic configuration"
    mv = 2.0 ** c["mvk"] if c["hasmv"] else None
    ctor = Q.quantized_po2 if k == "po2_quad" else Q.quantized_relu_po2
    return ctor(c["bits"], max_value=mv, use_stochastic_rounding=stochastic, quadratic_approximation=True)
  alpha = None if c["alpha"] == "None" else (c["alpha"] if c["alpha"].startswith("auto") else float(c["alpha"]))
  if k == "binary_sr":
    return Q.binary(alpha=alpha, use_stochastic_rounding=stochastic)
  if k == "stochastic_binary":
    return Q.stochastic_binary(alpha=alpha) if stochastic else Q.binary(alpha=alpha)
  if k == "stochastic_ternary":
    kw = {"number_of_unrolls": c["unrolls"]} if "unrolls" in c else {}
    return Q.stochastic_ternary(alpha=alpha, **kw) if stochastic else Q.ternary(alpha=alpha, **kw)
  if k == "ternary_sr":
    return Q.ternary(alpha=alpha, use_stochastic_rounding=stochastic)
  raise ValueError(k)


def inputs(c, rnd, tier):
  if c["fam"] == "fixed":
    x = cell_inputs(c, rnd, tier == "thorough" or c["bits"] <= 4)
    extra = f32([rnd.uniform(-3, 3) for _ in range(40)])
    return [np.concatenate([x[np.abs(x) < 1e5], extra])]
  if c["fam"] == "po2" or c.get("kind", "").endswith(("_quad", "_floor")) or c.get("kind") == "relu_po2_leaky":
    xs = []
    for k in range(-12, 10):
      for m in (1.0, 1.0625, 1.25, 1.5, 1.75, 1.9375):
        xs += [m * 2.0 ** k, -m * 2.0 ** k]
    return [f32(xs)]
  if c["fam"] == "sign1":                    # multiples of step / 64 around the two codes (every float32 sum is exact)
    ks = sorted(set([-96, -48, -33, -32, -31, -16, -1, 0, 1, 16, 31, 32, 33, 48, 96] + [rnd.randint(-40, 40) for _ in range(20)]))
    return [f32([k / 64.0 * 2.0 ** c["int"] for k in ks])]
  if c["fam"] == "sb":
    return [f32([rnd.uniform(-0.4, 0.4) for _ in range(30)] + [0.0, -0.0, 1.0, -1.0, 0.0625, -0.0625, 0.125, -0.125, 1.0 / 6, -1.0 / 6, 3.0])]
  a = f32([rnd.uniform(-2, 2) for _ in range(12)] + [0.0, 0.4, -0.4, 1.0])
  b = f32([[rnd.uniform(-2, 2) for _ in range(3)] for _ in range(4)])
  return [a, b]


def main():
  cfgs_path, prefix, tier, seed, shard, nshards = sys.argv[1:7]
  seed, shard, nshards = int(seed), int(shard), int(nshards)
  cfgs = json.load(open(cfgs_path))
  mine = [c for j, c in enumerate(cfgs) if j % nshards == shard]
  rnd = random.Random(seed * 1000 + shard)
  events, errors = [], []
  for ci, c in enumerate(mine):
    for x in inputs(c, rnd, tier):
      xt = tf.constant(x)
      try:
        K.set_learning_phase(0)
        yd = make(c, False)(xt).numpy()
      except Exception as e:
        errors.append({"k": "exc_deterministic", "c": ci + 1, "exc": repr(e)[:300]})
        continue
      plan = [(0, 0.5)]
      if c["fam"] in ("fixed", "po2", "sb", "sign1"):
        draws = DRAWS if tier == "thorough" else rnd.sample(DRAWS[1:-1], 3) + [DRAWS[0], DRAWS[-1]]
        if c["fam"] == "po2":
          draws = [d for d in draws if d > 0]
        plan += [(1, u) for u in draws]
      for ph, u in plan:
        try:
          K.set_learning_phase(ph)
          DRAW[0] = u
          # the flag as True or as the integer 1 (what str(q) prints and a quantizer string produces)
          y = make(c, True if ci % 2 else 1)(xt).numpy()
        except Exception as e:
          errors.append({"k": "raises", "c": ci + 1, "phase": ph, "rank": int(x.ndim), "exc": repr(e)[:300]})
          continue
        finally:
          K.set_learning_phase(0)
        du = dy(float(np.float32(u)))
        for a, b, d in zip(x.reshape(-1), y.reshape(-1), yd.reshape(-1)):
          if not np.isfinite(b):
            errors.append({"k": "nonfinite", "c": ci + 1, "phase": ph, "x": float(a)})
            continue
          events.append({"c": ci + 1, "ph": ph, "u": du, "x": dy(a), "y": dy(b), "yd": dy(d)})
  json.dump(mine, open("%s.%d.cfg.json" % (prefix, shard), "w"))
  write_ndjson("%s.%d.ndjson" % (prefix, shard), events)
  json.dump(errors, open("%s.%d.err.json" % (prefix, shard), "w"))
  print(json.dumps({"events": len(events), "cfgs": len(mine), "errors": len(errors)}))


if __name__ == "__main__":
  main()
