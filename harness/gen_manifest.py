"""Writes /verif/MANIFEST.json from the table below (single source of truth for the registered checks)."""
import json
import os
import sys

sys.path.insert(0, os.path.dirname(os.path.abspath(__file__)))
from check import MODULES  # noqa: E402

VERIF = os.path.dirname(os.path.dirname(os.path.abspath(__file__)))
BASELINE = ("cd /repo && /venv/bin/python -m pytest -ra -q -p no:cacheprovider --timeout=900 "
            "--continue-on-collection-errors --junitxml=/tmp/qkeras_baseline.junit.xml")

COMMON_NOTE = ("Trusted base: TLC 1.8 / SANY, the TLA+ modules under /verif/spec (F32.tla is self-tested against NumPy "
               "float32 by setup), the Python drivers' exact float->dyadic encoding, TF CPU float32 kernels; the "
               "legacy-Keras environment (TF_USE_LEGACY_KERAS=1) stands in for the environment QKeras targets. "
               "Bounded: exhaustive for the stated lattice constants, sampled beyond.")

CHECKS = {
    "C01": dict(
        spec="QFixed.tla + MC_QFixed + Trace_QFixed",
        text="TLC proves Design=>Prop (codes on grid, in range, <=2^bits codes, every code reachable, range()=reachable "
             "set) on every quarter-step input cell of every fixed-point configuration of the lattice; every cell is "
             "then replayed on the real quantizers with float32 witnesses (+ random float32 inputs) and each recorded "
             "call/min/max/range event is judged by the TLC trace specification with exact dyadic arithmetic.",
        design="7 C01, 5.1-5.3"),
    "C02": dict(
        spec="QFixed.tla + MC_QFixed + Trace_QFixed",
        text="Same lattice as C01: TLC checks nearest-code projection, half-step error bound, end-code saturation, "
             "monotonicity as an action property along the cell successor, idempotence; the trace specification judges "
             "the same clauses on recorded real calls (sorted witnesses for monotonicity, q(q(x)) for idempotence; the "
             "float32 evaluation of the hard sigmoid/tanh affine map is modelled exactly).",
        design="7 C02, 5.2"),
    "C03": dict(
        spec="QPo2.tla + MC_QPo2 + Trace_QPo2",
        text="TLC proves on every log-grid cell (binade x position class incl. sqrt(2) midpoints, epsilon floor, "
             "max_value clamp) of every (class, bits, max_value, slope, mode) configuration that the transcribed "
             "design emits in-range exponents that are log2-nearest/floor admissible, never above a power-of-two "
             "max_value, monotone, idempotent; all cells are replayed on the real quantizers and every recorded call "
             "(value, q(q(x)), min/max) is judged by the TLC trace specification (exact dyadics, float32 STE model).",
        design="7 C03, 5.3, 5.4"),
    "C04": dict(
        spec="QBinTern.tla + MC_QGroup + Trace_QBinTern",
        text="TLC proves for all small shapes x admissible (scale_axis, elements_per_scale) that the grouping is a "
             "partition with the declared group count and size and emits that lattice; the real binary/ternary "
             "quantizers are run on it (integer-grid data for exact least-squares sums, free float32 data) and TLC "
             "judges every recorded tensor call: code alphabet, sign / threshold rule, threshold-shapedness, scale "
             "sign, constancy per group, least-squares optimum, power-of-two snap and exponent bounds.",
        design="7 C04"),
    "C05": dict(
        spec="MC_QAuto + Trace_QAuto (+ QBinTern grouping)",
        text="TLC checks the alpha='auto' rule on all tiny integer tensors with exact rationals (codes in width, "
             "maximum on the top code and reproduced, zero group finite, equivariance); recorded calls of "
             "quantized_bits/quantized_linear with auto, auto_po2 and frozen post-training scales on rank 1-4 tensors "
             "are judged by the TLC trace specification: y = float32 STE of scale*code*step, code range, scale "
             "positive / per channel / power of two / within bounds, maximum not clipped, scale equivariance.",
        design="7 C05"),
    "C06": dict(
        spec="QGrad.tla + MC_QGrad + Trace_QGrad",
        text="TLC checks on every cell of every fixed-point configuration that the derivative of the evaluated "
             "expression (STE / mixed / quantized_linear forms, every qnoise factor) equals the derivative of the "
             "documented surrogate, is zero exactly on documented clipped cells and not identically zero; "
             "tf.GradientTape gradients of the real quantizers (fixed-point, po2, binary/ternary, stochastic variants "
             "at inference, bernoulli, auto-scaled) on the same cells are judged by the TLC trace specification.",
        design="7 C06"),
    "C07": dict(
        spec="QNoise.tla + MC_QNoise + MC_QKnob + Trace_QNoise + Trace_QKnob",
        text="TLC model-checks the scheduler over every Keras callback sequence (several fit() runs, interleaved layer "
             "calls, float/Variable storage): factor applied to all knob quantizers, end points, unit interval, "
             "non-decreasing (action property); and the knob life cycle (effective factor = last value set). "
             "TLC -simulate behaviours are replayed hook by hook into the real QNoiseScheduler / quantizer objects, "
             "real model.fit runs are recorded, and every trace is validated by TLC trace specifications reusing the "
             "same operators (state after every action; outputs = float32 surrogate + f*(quantized - surrogate), "
             "constructor-constant vs updated factor, factor 0 = documented activation).",
        design="7 C07"),
    "C08": dict(
        spec="QStoch.tla + MC_QStoch + Trace_QStoch",
        text="With the uniform draw as an explicit parameter TLC proves on every cell x draw that the stochastic "
             "pipelines emit only the two codes adjacent to the clipped input, leave codes unchanged and satisfy the "
             "exact unbiasedness identity (sum over the draw lattice = 8 x input); the real quantizers run with "
             "tf.random.uniform replaced by that draw (fixed-point and po2 families, training phase) and with the "
             "phase off (all stochastic quantizers vs their deterministic counterparts, rank 1 and 2 tensors); every "
             "recorded call is judged by the TLC trace specification (adjacent, unchanged, direction for the draw, "
             "bitwise equality at inference).",
        design="7 C08"),
    "C09": dict(
        spec="QSchema.tla + MC_QRoundTrip + Trace_QRoundTrip",
        text="The constructor-option schemas of all 14 registered classes are TLA+ data; TLC enumerates the "
             "configuration lattice (bases x single/pairs of option deviations, documented contracts respected) and "
             "all route compositions (from_config, get_quantizer(dict), keras serialize/deserialize) as stuttering "
             "steps; every behaviour is replayed on real objects and the TLC trace specification checks that each "
             "route leaves the function unchanged (bitwise outputs and scale on probe tensors, inference and training "
             "phase with fixed draws) and does not raise; registry names resolve to their classes.",
        design="7 C09"),
    "C10": dict(
        spec="SafeEval.tla + MC_SafeEval + Trace_SafeEval; QSchema/MC_QRoundTrip/Trace_QRoundTrip for str(q)",
        text="TLC proves parser result = Python call result (argument split, literal types, order error) for every "
             "token sequence up to the bound; every sequence is rendered, parsed by qkeras.safe_eval into a recording "
             "callable and evaluated by Python itself, and TLC judges got = python = spec; hostile strings must not "
             "execute. Print/text direction: str(q) and three renderings of the equivalent Python call are stuttering "
             "steps on the function for the whole configuration lattice (same probe-based trace validation as C09).",
        design="7 C10"),
    "C16": dict(
        spec="QTypes.tla + MC_QTypes + Trace_QTypes",
        text="QTypes.tla gives every operand and reported type an exact value lattice and transcribes the multiplier "
             "table and bit rules; TLC brute-forces every value pair of every operand-type pair of the lattice "
             "(products representable up to the named deviations, zero representable, fixed x fixed exact, widening "
             "monotone); the same lattice is pushed through the real quantizer_factory / MultiplierFactory and TLC "
             "judges the reported output type and implementation kind of every pair against the value lattices "
             "(the transcription itself agrees with the code on the whole lattice: 0 deviations).",
        design="7 C16"),
    "C17": dict(
        spec="QTypes.tla + MC_QTypes + Trace_QTypes",
        text="For every multiplier output type of the lattice, N in {1..4097 incl. 2^k, 2^k+-1} and use_bias, and for "
             "adder operand pairs: N*max and N*min (resp. max a+max b, min a+min b) are representable in the type "
             "the transcribed rule yields (TLC, named deviations) and in the type the real AccumulatorFactory / "
             "IAdder report (TLC trace validation); result step never coarser than the finest operand; widening N "
             "never narrows.",
        design="7 C17", note="merge layers Add / Maximum / Concatenate are judged on operand pairs (adder property resp. containment of both operand types)"),
    "C19": dict(
        spec="QOps.tla + MC_QOps + Trace_QOps",
        text="TLC proves the closed-form operation counts equal the loop-nest cardinalities (output positions from "
             "first principles x taps x channels) on all small geometries; the real QTools is run on one-layer models "
             "over the geometry lattice (kernel, stride, padding incl. causal, dilation, channels, depth multiplier, "
             "pool window, merge) and on multi-layer models for every memory placement option, and TLC judges every "
             "reported count against QOps!MACs and every energy report for non-negativity, entries = documented "
             "functions (harness re-evaluation, 2 decimals), total = sum of entries, extracted sum = selected "
             "entries.",
        design="7 C19", note="energy polynomials are evaluated in float by the harness; TLC decides the accounting on integers x100"),
    "C20": dict(
        spec="AutoQ.tla + MC_AutoQ + Trace_AutoQ",
        text="TLC checks on the reference instance of AutoQ.tla (two Conv2D class-keyed layers with/without bias and "
             "inline activation, an Activation layer, a regex pattern group of two Dense layers, one ending in softmax) "
             "that every assignment of every tuner choice x every layer-index set yields a trial within limits, shared "
             "inside the group, untouched outside the selection, softmax kept. The real "
             "AutoQKHyperModel.quantize_model is driven with a stub tuner through all 324 assignments x 4 index sets "
             "(thorough; seeded sample of 280 in quick), and two generic instances (conv / separable / LSTM / SimpleRNN / GRU / dense mixes, short limit lists completed from 'default', explicit quantizer lists, regex groups, layer names containing role words) with seeded random tuner answers judged by Trace_AutoQG against the documented limit format; each run logs every Choice/Fixed call with its offered values "
             "and the projected trial model, and TLC judges offered = limit-filtered table, chosen within limit, trial "
             "layer = chosen entry, group asked once, unselected layers stock, architecture kept. Forgiving factor: "
             "sign / zero / strict order of delta() on size series as exact dyadics, and compute_model_size = sum of "
             "elements x bits recomputed from the trial model's tensors and quantizers.",
        design="7 C20", note="the keras-tuner search loop is replaced by a stub tuner (keras_tuner's oracle cannot run "
                            "offline trials here); filter tuning is not exercised"),
    "C18": dict(
        spec="QTypes.tla + MC_QTypes + Trace_QModel",
        text="Real one- and two-layer models (dense, conv1d, conv2d, depthwise; fixed/po2/ternary/binary kernels; "
             "with/without bias; quantized inputs) are loaded with extremal sign-aligned and random weights and "
             "inputs; intermediate sub-models yield the real pre-activation, weight, bias and activation tensors as "
             "exact dyadics, and the TLC trace specification checks, with the value lattices of QTypes.tla, that "
             "every one of them is representable in the type QTools reports for it (accumulator incl. bias adder "
             "and the type handed to the next layer), and that 2^analyze_accumulator >= the observed output "
             "magnitude; the type rules themselves are model-checked in MC_QTypes.",
        design="7 C18", note="auto-po2 adjusted accumulator entries are not yet exercised"),
    "C11": dict(
        spec="QLayer.tla + MC_QLayer + Trace_QLayer",
        text="QLayer.tla defines dense, conv1d/2d (stride, same/valid/causal, dilation), depthwise, separable and "
             "average-pooling layers executably on integer tensors and the order of quantizer applications; TLC pins "
             "those definitions with sanity theorems on all tiny tensors. Real layers are called with recording proxy "
             "quantizers and integer-coded dyadic data; TLC recomputes every call exactly (output = op on the recorded "
             "quantized weights + quantized bias, handed to the activation quantizer), checks the application order "
             "and get_quantizers(), and takes the bitwise comparison with the stock Keras layer (incl. RNN/LSTM/GRU "
             "and layers without quantizers) as a recorded flag.",
        design="7 C11"),
    "C15": dict(
        spec="BNFold.tla (+ QLayer.tla) + MC_BNFold + Trace_BNFold",
        text="TLC proves the folding algebra (conv with folded kernel + folded bias = conv followed by batch "
             "normalisation) on all tiny instances for both layer kinds; real QConv2DBatchnorm / "
             "QDepthwiseConv2DBatchnorm layers (both folding modes, use_bias/scale/center, geometries, with and "
             "without quantizers via recording proxies) are called at inference on integer-coded data with exact "
             "rsqrt statistics and TLC recomputes get_folded_weights(), what the kernel quantizer received, and the "
             "output exactly; equality with the stock Conv->BN pair, unfold_model and "
             "model_quantize(enable_bn_folding) on branched models are recorded bitwise comparisons judged in the "
             "same trace.",
        design="7 C15"),
    "C12": dict(
        spec="ModelGraph.tla + MC_ModelGraph + Trace_ModelGraph",
        text="ModelGraph.tla transcribes model_quantize as a rewriting of model descriptions (lookup precedence, "
             "per-kind rules, activation_bits); TLC checks on all models of <= 2 layers x all dictionaries (1.7 M "
             "states) that unselected layers are untouched, a name entry beats the class entry as a whole record, "
             "biasless layers get no bias quantizer, classes are the Q counterparts; real model_quantize runs on "
             "sampled (model, dictionary) pairs incl. 3-layer models are projected (class, quantizers the Q class "
             "builds from the strings, activation, shapes, weights, source model and caller dictionaries) and TLC "
             "judges result = DesignQuantize(dict, model) plus the frame flags.",
        design="7 C12"),
    "C13": dict(
        spec="MC_ModelRT + Trace_ModelRT",
        text="Every quantized layer class of the custom-object table x six weight-quantizer variants (scale_axis, po2 "
             "exponent bounds, auto scales, po2, ternary, binary) is built as a real model with discriminating "
             "weights; TLC enumerates the route compositions (json, clone, h5, plus a frozen-layer history) as "
             "stuttering steps and the TLC trace specification validates every replayed behaviour: bit-identical "
             "predictions (exact dyadics) and identical quantizer configurations after every route, no route raises, "
             "no user custom objects.",
        design="7 C13"),
    "C14": dict(
        spec="Export.tla + MC_Export + Trace_Export (+ BNFold exponents)",
        text="TLC model-checks export histories (stored weights = quantizer applied once, second export stutters, po2 "
             "split rebuilds) on all tiny weight vectors; real model_save_quantized_weights runs on ten weight-bearing "
             "layer classes x six quantizer variants are recorded per (quantizer, weight) role as exact dyadics and "
             "TLC judges: stored weight = fresh quantizer applied once, sign*2^exponent = weight, scale*integer = "
             "weight with integers in the declared range, dictionary entry = stored weight otherwise; prediction "
             "preservation and idempotence of a second export for data-independent and frozen scales; bn_inv / "
             "fused_bias of conv+QBatchNormalization pairs against the batch-norm algebra on integer codes.",
        design="7 C14"),
}


def main():
  props = [json.loads(l) for l in open(os.path.join(VERIF, "properties.jsonl"))]
  checks = []
  na = []
  for p in props:
    pid = p["id"]
    if pid in CHECKS and pid in MODULES:
      c = CHECKS[pid]
      checks.append({
          "property_id": pid,
          "quick_cmd": "bin/check %s --tier quick" % pid,
          "thorough_cmd": "bin/check %s --tier thorough" % pid,
          "evidence_file": "evidence/%s.json" % pid,
          "replay_cmd_template": "bin/check %s --replay {path}" % pid,
          "engine": "tlc",
          "level_claimed": {"category": "model_checking", "text": c["text"], "design_ref": "DESIGN.md section " + c["design"]},
          "level_note": COMMON_NOTE + (" " + c["note"] if c.get("note") else ""),
          "technique": "explicit TLA+ specification (%s): TLC bounded model checking + TLC trace validation of "
                       "recorded executions of the real code (spec->code replay of the TLC-enumerated lattice, "
                       "code->spec judging)" % c["spec"],
      })
    else:
      na.append({"property_id": pid, "reason": "check not built yet in this round (work in progress; the design in "
                                               "DESIGN.md section 7 applies) - not claimed until its TLA+ "
                                               "specification and conformance harness are committed"})
  man = {
      "version": 1,
      "setup_cmd": "bin/setup",
      "hooks": {"guard": "QKERAS_VERIF", "enable": "no source hooks are needed so far: the drivers observe the public "
                "API (QKERAS_VERIF=1 is exported by the drivers and reserved for future add-only hooks)",
                "baseline_off_cmd": BASELINE, "source_commits": [], "add_only": True},
      "engines": [{"name": "tlc", "path": "/usr/local/bin/tlc", "serves_properties": [c["property_id"] for c in checks],
                   "kind_free_text": "TLC 1.8 explicit-state model checker: bounded model checking of the TLA+ "
                                     "specifications in /verif/spec and batch trace validation (ndjson traces "
                                     "recorded from the real code in /repo)"}],
      "checks": checks,
      "notes": "All checks: `bin/check <id> --tier quick|thorough`; exit 0 held / 1 VIOLATION / 2 machinery failure. "
               "known_findings.json lists genuine defects of the unchanged tree (KNOWN-FINDING lines).",
      "not_applicable": na,
  }
  json.dump(man, open(os.path.join(VERIF, "MANIFEST.json"), "w"), indent=1)
  print("MANIFEST.json: %d checks, %d not_applicable" % (len(checks), len(na)))


if __name__ == "__main__":
  main()
