"""Driver for C03: real quantized_po2 / quantized_relu_po2 on every log-grid cell witness + random float32 inputs.

usage: drive_po2.py <cfgs.json> <out_prefix> <tier> <seed> <shard> <nshards>
"""
import json
import math
import random
import sys
import numpy as np
from qk import tf, Q, scalar, call, f32, up
from common import dy, write_ndjson


def make(c, **kw):
  mv = (2.0 ** c["mvk"]) if c["hasmv"] else None
  if c["cls"] == "po2":
    return Q.quantized_po2(c["bits"], max_value=mv, log2_rounding=c["mode"], **kw)
  slope = 0 if c["sl"] == 0 else 2.0 ** -c["sl"]
  return Q.quantized_relu_po2(c["bits"], max_value=mv, negative_slope=slope, log2_rounding=c["mode"], **kw)


def exps(c):
  need = 0 if (c["hasmv"] and c["mvk"] <= 0) else 1
  eff = c["bits"] - need - (1 if c["cls"] == "po2" else 0)
  return -2 ** eff, 2 ** eff - 1


def inputs(c, rnd, tier):
  lo, hi = exps(c)
  ks = list(range(max(lo, -40) - 3, min(hi, 40) + 4))
  if lo < -40:
    ks += [lo - 1, lo, lo + 1]
  ks += [-25, -24, -23]
  if len(ks) > 40 and tier == "quick":
    ks = sorted(set(ks[:8] + ks[-8:] + rnd.sample(ks, 16) + [-25, -24, -23, -1, 0, 1]))
  xs = []
  s2 = math.sqrt(2.0)
  for k in sorted(set(ks)):
    b = f32(2.0 ** k)
    mid = f32(s2 * 2.0 ** k)
    xs += [b, up(b, 1), up(b, 2), up(b, 8), up(b, 300), f32(1.2 * 2.0 ** k), f32(1.7 * 2.0 ** k),
           up(f32(2.0 ** (k + 1)), -1), up(f32(2.0 ** (k + 1)), -2), up(f32(2.0 ** (k + 1)), -600)]
    for d in (1, 2, 8, 400, 700):
      xs += [up(mid, d), up(mid, -d)]
    xs.append(mid)
  eps = f32(1e-7)
  xs += [eps, up(eps, 1), up(eps, -1), up(eps, 2), up(eps, -2), 0.0, 1e-45, 2.0 ** -126, 2.0 ** -100, 3e-8, 9e-8]
  if c["hasmv"]:
    mv = f32(2.0 ** c["mvk"])
    xs += [mv, up(mv, 1), up(mv, -1), 1.5 * mv, 3 * mv, 100 * mv]
  top = 2.0 ** min(hi, 60)
  xs += [top * 2.0 ** 20, top * 2.0 ** 21.9, top * 3.0]
  n = 300 if tier == "quick" else 3000
  for _ in range(n):
    k = rnd.random()
    if k < 0.6:
      xs.append(2.0 ** rnd.uniform(max(lo, -60) - 4, min(hi, 60) + 6))
    elif k < 0.8:
      xs.append(rnd.uniform(0, 4))
    else:
      xs.append(2.0 ** (rnd.randint(max(lo, -60) - 2, min(hi, 60) + 2) + 0.5 + rnd.uniform(-1e-4, 1e-4)))
  xs = np.asarray(xs, dtype=np.float32)
  xs = xs[np.isfinite(xs)]
  return np.sort(np.concatenate([xs, -xs, f32([-0.0])]))


def main():
  cfgs_path, prefix, tier, seed, shard, nshards = sys.argv[1:7]
  seed, shard, nshards = int(seed), int(shard), int(nshards)
  cfgs = json.load(open(cfgs_path))
  mine = [c for j, c in enumerate(cfgs) if j % nshards == shard]
  rnd = random.Random(seed * 1000 + shard)
  events, errors = [], []
  for ci, c in enumerate(mine):
    try:
      q = make(c)
      x = inputs(c, rnd, tier)
      y = call(q, x)
      yy = call(q, y)
      mn, mx = dy(scalar(q.min())), dy(scalar(q.max()))
    except Exception as e:
      errors.append({"k": "exc", "c": ci + 1, "exc": repr(e)[:300]})
      continue
    for a, b, d in zip(x, y, yy):
      if not (np.isfinite(b) and np.isfinite(d)):
        errors.append({"k": "nonfinite", "c": ci + 1, "x": float(a)})
        continue
      events.append({"c": ci + 1, "x": dy(a), "y": dy(b), "yy": dy(d), "mn": mn, "mx": mx})
  json.dump(mine, open("%s.%d.cfg.json" % (prefix, shard), "w"))
  write_ndjson("%s.%d.ndjson" % (prefix, shard), events)
  json.dump(errors, open("%s.%d.err.json" % (prefix, shard), "w"))
  print(json.dumps({"events": len(events), "cfgs": len(mine), "errors": len(errors)}))


if __name__ == "__main__":
  main()
