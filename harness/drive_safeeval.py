"""Driver for C10 (parse direction): every token sequence of MC_SafeEval rendered as text, parsed by qkeras.safe_eval
into a recording callable and evaluated by Python itself.

usage: drive_safeeval.py <maxlen> <out.ndjson> <tier> <seed>
"""
import itertools
import json
import os
import random
import sys
from qk import Q
import importlib
SE = importlib.import_module("qkeras.safe_eval")
from common import write_ndjson

DOM = ["int", "negint", "float", "sci", "true", "false", "none", "sq", "dq"]
POOL = {"int": ["4", "0", "12", "1"], "negint": ["-3", "-1"], "float": ["0.5", "2.0", "-1.25", "0.125"],
        "sci": ["1e-3", "2.5e2", "-1e2"], "true": ["True"], "false": ["False"], "none": ["None"],
        "sq": ["'auto'", "'auto_po2'", "'rnd'"], "dq": ['"floor"', '"auto"'],
        "qlist": ["[1 2]", "[0 1 3]"], "pylist": ["[1,2]", "[2, 3]"], "bare": ["auto", "floor"]}
NAMES = ["", "k1", "k2"]
LAYOUTS = ["tight", "after_comma", "before_comma", "both_comma", "inside_parens", "before_rparen", "spaced_equals"]


def rec(*args, **kwargs):
  return args, kwargs


def typed(v):
  if isinstance(v, bool):
    return ["bool", str(v)]
  if isinstance(v, int):
    return ["int", str(v)]
  if isinstance(v, float):
    return ["float", repr(v)]
  if v is None:
    return ["none", ""]
  if isinstance(v, str):
    return ["str", v]
  if isinstance(v, (list, tuple)):
    return ["list", "|".join(typed(e)[0] + ":" + typed(e)[1] for e in v)]
  return ["other", type(v).__name__]


def outcome(fn):
  try:
    args, kwargs = fn()
    return {"status": "ok", "args": [typed(a) for a in args], "kwargs": [[k] + typed(v) for k, v in kwargs.items()]}
  except SyntaxError:
    return {"status": "SyntaxError", "args": [], "kwargs": []}
  except Exception as e:
    return {"status": type(e).__name__, "args": [], "kwargs": []}


def main():
  maxlen, out, tier, seed = int(sys.argv[1]), sys.argv[2], sys.argv[3], int(sys.argv[4])
  rnd = random.Random(seed)
  events = []
  toks_all = [(kw, kind) for kw in NAMES for kind in DOM]
  nseq = 0
  for n in range(0, maxlen + 1):
    for seq in itertools.product(toks_all, repeat=n):
      kws = [kw for kw, _ in seq if kw]
      if len(kws) != len(set(kws)):
        continue
      nseq += 1
      # layout: blanks where Python allows them (after / before commas, inside the parentheses, around '=')
      layout = LAYOUTS[nseq % len(LAYOUTS)]
      eq = " = " if layout == "spaced_equals" else "="
      parts = [(kw + eq if kw else "") + rnd.choice(POOL[kind]) for kw, kind in seq]
      sep = {"tight": ",", "after_comma": ", ", "before_comma": " ,", "both_comma": " , "}.get(layout, ", ")
      text = sep.join(parts)
      if layout == "inside_parens" and parts:
        text = " " + text + " "
      elif layout == "before_rparen" and parts:
        text = text + " "
      events.append({"k": "parse", "toks": [{"kw": kw, "kind": kind} for kw, kind in seq], "text": text, "layout": layout,
                     "got": outcome(lambda: SE.safe_eval("rec(" + text + ")", {"rec": rec})),
                     "py": outcome(lambda: eval("rec(" + text + ")", {"rec": rec, "__builtins__": {}}))})
  # outside the literal domain: list syntaxes, bare words (judged as their own clause -> findings)
  for kind in ("qlist", "pylist"):
    for lit in POOL[kind]:
      for kw in ("", "k1"):
        text = (kw + "=" if kw else "") + lit
        pytext = text.replace("[1 2]", "[1,2]").replace("[0 1 3]", "[0,1,3]")
        events.append({"k": "parse", "toks": [{"kw": kw, "kind": kind}], "text": text,
                       "got": outcome(lambda: SE.safe_eval("rec(" + text + ")", {"rec": rec})),
                       "py": outcome(lambda: eval("rec(" + pytext + ")", {"rec": rec, "__builtins__": {}}))})
  # hostile strings: would create the marker if any part were evaluated
  marker = os.path.join(os.getcwd(), "pwned_%d" % os.getpid())
  hostile = ["quantized_bits(__import__('os').mknod('%s'))" % marker,
             "quantized_bits(bits=__import__('os').mknod('%s'))" % marker,
             "quantized_bits(4, alpha=open('%s','w'))" % marker,
             "__import__('os').mknod('%s')" % marker,
             "quantized_bits(4).__class__.__init__.__globals__['os'].mknod('%s')" % marker,
             "eval(\"open('%s','w')\")" % marker,
             "quantized_relu(4, 0, exec(\"import os; os.mknod('%s')\"))" % marker,
             "binary(alpha=[__import__('os').mknod('%s') 1])" % marker]
  for h in hostile:
    try:
      Q.get_quantizer(h)
      st = "returned"
    except BaseException as e:
      st = type(e).__name__
    ex = os.path.exists(marker)
    if ex:
      os.remove(marker)
    events.append({"k": "hostile", "text": h, "outcome": st, "executed": int(ex)})
  write_ndjson(out, events)
  print(json.dumps({"events": len(events), "sequences": nseq}))


if __name__ == "__main__":
  main()
