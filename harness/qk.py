"""Helpers that touch the real library (imported only inside driver processes run with the legacy-Keras env)."""
import math
import os
import sys
import numpy as np

os.environ.setdefault("TF_CPP_MIN_LOG_LEVEL", "3")
import tensorflow as tf  # noqa: E402

tf.get_logger().setLevel("ERROR")
try:
  tf.config.threading.set_intra_op_parallelism_threads(1)
  tf.config.threading.set_inter_op_parallelism_threads(1)
except RuntimeError:
  pass
import qkeras  # noqa: E402
from qkeras import quantizers as Q  # noqa: E402

sys.path.insert(0, os.path.dirname(os.path.abspath(__file__)))
from common import dy, undy  # noqa: E402

K = tf.keras.backend


def scalar(v):
  """q.min()/q.max() return python floats, numpy scalars/arrays or tf tensors depending on the class."""
  if isinstance(v, (tf.Tensor, tf.Variable)):
    v = v.numpy()
  a = np.asarray(v, dtype=np.float64).reshape(-1)
  return float(a[0])


def make_fixed(c, **kw):
  """Real quantizer for a QFixed configuration record (al/ub as [m,e])."""
  al = undy(c["al"])
  alpha = None if c.get("al_none", al == 1.0 and not c.get("al_explicit")) else al
  cls = c["cls"]
  if cls == "bits":
    return Q.quantized_bits(c["bits"], c["int"], symmetric=c["sym"], keep_negative=bool(c["kn"]), alpha=alpha, **kw)
  if cls == "linear":
    return Q.quantized_linear(c["bits"], c["int"], symmetric=c["sym"], keep_negative=bool(c["kn"]), alpha=alpha, **kw)
  if cls == "relu":
    slope = 0.0 if c["sl"] == 0 else 2.0 ** -c["sl"]
    ub = undy(c["ub"]) if c["clip"] == "ub" else None
    return Q.quantized_relu(c["bits"], c["int"], negative_slope=slope, is_quantized_clip=(c["clip"] == "q"),
                            relu_upper_bound=ub, **kw)
  if cls == "tanh":
    return Q.quantized_tanh(c["bits"], symmetric=c["sym"], **kw)
  if cls == "sigmoid":
    return Q.quantized_sigmoid(c["bits"], symmetric=c["sym"], **kw)
  raise ValueError(cls)


def non_sign_bits(c):
  cls = c["cls"]
  if cls in ("bits", "linear"):
    return c["bits"] - c["kn"]
  if cls == "relu":
    return c["bits"] - (1 if c["sl"] > 0 else 0)
  if cls == "tanh":
    return c["bits"] - 1
  return c["bits"]


def step_exp(c):
  if c["cls"] in ("bits", "linear", "relu"):
    return c["int"] - non_sign_bits(c)
  return -non_sign_bits(c)


def lo_code(c):
  m = 2 ** non_sign_bits(c)
  cls = c["cls"]
  if cls in ("bits", "linear"):
    return c["kn"] * (-m + c["sym"])
  if cls == "relu":
    return -(m >> c["sl"]) if c["sl"] > 0 else 0
  if cls == "tanh":
    return -m + c["sym"]
  return c["sym"]


def call(q, x):
  """Evaluate the quantizer eagerly on a float32 numpy array; returns float32 numpy."""
  y = q(tf.constant(np.asarray(x, dtype=np.float32)))
  return np.asarray(y.numpy() if hasattr(y, "numpy") else y, dtype=np.float32)


def f32(x):
  return np.asarray(x, dtype=np.float32)


def up(x, k=1):
  x = f32(x)
  for _ in range(abs(k)):
    x = np.nextafter(x, f32(np.inf if k > 0 else -np.inf))
  return x
