"""Driver for C06: tf.GradientTape gradients of the real quantizers on cell witnesses.

usage: drive_grad.py <cfgs.json> <out_prefix> <tier> <seed> <shard> <nshards>
"""
import json
import random
import sys
import numpy as np
from qk import tf, Q, make_fixed, f32, up, non_sign_bits, step_exp, lo_code
from common import dy, undy, write_ndjson
from drive_fixed import cell_inputs


def grads(q, x, ref=None):
  xt = tf.constant(np.asarray(x, dtype=np.float32))
  with tf.GradientTape() as t:
    t.watch(xt)
    y = q(xt)
  g = t.gradient(y, xt)
  g = np.zeros_like(x) if g is None else g.numpy()
  r = np.zeros_like(x)
  if ref is not None:
    with tf.GradientTape() as t:
      t.watch(xt)
      y = ref(xt)
    r = t.gradient(y, xt).numpy()
  return g, r


def make(c):
  fam = c["fam"]
  kw = {}
  if fam == "fixed":
    if c["cls"] in ("bits", "relu"):
      kw = {"use_ste": bool(c["ste"]), "qnoise_factor": undy(c["f"])}
    if c.get("sr"):
      kw["use_stochastic_rounding"] = True
    return make_fixed(c, **kw), None
  if fam == "po2":
    mv = 2.0 ** c["mvk"] if c["hasmv"] else None
    kw = {"use_ste": bool(c["ste"]), "qnoise_factor": undy(c["f"])}
    if c["cls"] == "po2":
      return Q.quantized_po2(c["bits"], max_value=mv, **kw), None
    return Q.quantized_relu_po2(c["bits"], max_value=mv, negative_slope=(0 if c["sl"] == 0 else 2.0 ** -c["sl"]), **kw), None
  k = c["kind"]
  c = dict(c)
  a = c["alpha"]
  c["alpha"] = None if a == "None" else (a if a.startswith("auto") else float(a))
  if k == "binary":
    return Q.binary(alpha=c["alpha"], use_01=c.get("use01", False)), (tf.tanh if c["alpha"] is None else None)
  if k == "ternary":
    return Q.ternary(alpha=c["alpha"]), (tf.tanh if c["alpha"] is None else None)
  if k == "stochastic_binary":
    return Q.stochastic_binary(alpha=c["alpha"]), (tf.tanh if c["alpha"] is None else None)
  if k == "stochastic_ternary":
    return Q.stochastic_ternary(alpha=c["alpha"]), (tf.tanh if c["alpha"] is None else None)
  if k == "bernoulli":
    return Q.bernoulli(alpha=c["alpha"]), None
  if k == "bits_auto":
    return Q.quantized_bits(c["bits"], c["int"], alpha=c["alpha"]), None
  if k == "linear_auto":
    return Q.quantized_linear(c["bits"], c["int"], alpha=c["alpha"]), None
  raise ValueError(k)


def main():
  cfgs_path, prefix, tier, seed, shard, nshards = sys.argv[1:7]
  seed, shard, nshards = int(seed), int(shard), int(nshards)
  cfgs = json.load(open(cfgs_path))
  mine = [c for j, c in enumerate(cfgs) if j % nshards == shard]
  rnd = random.Random(seed * 1000 + shard)
  tf.keras.backend.set_learning_phase(0)
  events, errors = [], []
  for ci, c in enumerate(mine):
    try:
      q, ref = make(c)
      if c["fam"] == "fixed":
        x = cell_inputs(c, rnd, tier == "thorough" or c["bits"] <= 4)
        x = x[np.abs(x) < 1e6]
      elif c["fam"] == "po2":
        ks = range(-10, 10)
        x = np.array([s * m * 2.0 ** k for k in ks for m in (1.0, 1.3, 1.41421, 1.7) for s in (1, -1)] + [0.0, 1e-9, -1e-9],
                     dtype=np.float32)
        if c["hasmv"]:
          mv = f32(2.0 ** c["mvk"])
          x = np.concatenate([x, [mv, up(mv, 1), up(mv, -1), mv * 4]]).astype(np.float32)
      else:
        x = np.array([rnd.uniform(-2, 2) for _ in range(24)] + [0.0, 0.5, -0.5, 1.0, 3.0, -3.0], dtype=np.float32)
        if c["kind"] in ("bits_auto", "linear_auto"):
          x = x.reshape(5, 6)
      tf.keras.backend.set_learning_phase(1 if c.get("sr") == 1 else 0)
      try:
        g, r = grads(q, x, ref)
      finally:
        tf.keras.backend.set_learning_phase(0)
    except Exception as e:
      errors.append({"k": "exc", "c": ci + 1, "exc": repr(e)[:300]})
      continue
    for a, b, d in zip(x.reshape(-1), g.reshape(-1), r.reshape(-1)):
      if not np.isfinite(b):
        errors.append({"k": "grad_nonfinite", "c": ci + 1, "x": float(a)})
        continue
      events.append({"c": ci + 1, "x": dy(a), "g": dy(b), "r": dy(d)})
  json.dump(mine, open("%s.%d.cfg.json" % (prefix, shard), "w"))
  write_ndjson("%s.%d.ndjson" % (prefix, shard), events)
  json.dump(errors, open("%s.%d.err.json" % (prefix, shard), "w"))
  print(json.dumps({"events": len(events), "cfgs": len(mine), "errors": len(errors)}))


if __name__ == "__main__":
  main()
