"""Binding self-check (development aid, bin/selfcheck): for every trace specification a check runs, the first
recorded trace is copied, ONE observed field of ONE event is corrupted, and TLC must print a REJECT for the corrupted
copy that it does not print for the clean one. Enabled by VERIF_SELFCHECK=1; results appended to
$VERIF_OUT/selfcheck.jsonl. A trace specification that accepts its corrupted trace is a machinery failure."""
import json
import os
import threading

_done = set()
_lock = threading.Lock()


def _pick(events, pred):
  c = [i for i, e in enumerate(events) if pred(e)]
  return c[len(c) // 2] if c else None


def _set(field, value, pred=lambda e: True):
  def f(events):
    i = _pick(events, lambda e: field in e and pred(e))
    if i is None:
      return None
    old = events[i][field]
    events[i][field] = value(old, events[i]) if callable(value) else value
    return i, "%s: %s -> %s" % (field, json.dumps(old)[:60], json.dumps(events[i][field])[:60])
  return f


def _first_elem(field, value, pred=lambda e: True):
  def f(events):
    i = _pick(events, lambda e: field in e and len(e[field]) > 0 and pred(e))
    if i is None:
      return None
    old = events[i][field][0]
    events[i][field][0] = value
    return i, "%s[0]: %s -> %s" % (field, json.dumps(old)[:60], json.dumps(value))
  return f


def _sub(field, sub, value, pred=lambda e: True):
  def f(events):
    i = _pick(events, lambda e: field in e and isinstance(e[field], dict) and pred(e))
    if i is None:
      return None
    old = dict(events[i][field])
    events[i][field].update(sub if isinstance(sub, dict) else {sub: value})
    return i, "%s: %s -> %s" % (field, json.dumps(old)[:80], json.dumps(events[i][field])[:80])
  return f


def _bump_nested(field, pred=lambda e: True):
  def f(events):
    i = _pick(events, lambda e: field in e and pred(e))
    if i is None:
      return None
    x = events[i][field]
    path = []
    while isinstance(x, list) and x and isinstance(x[0], list):
      x = x[0]
      path.append(0)
    if not (isinstance(x, list) and x and isinstance(x[0], int)):
      return None
    x[0] += 1
    return i, "%s%s[0] += 1" % (field, "".join("[0]" for _ in path))
  return f


def _autoq(events):
  i = _pick(events, lambda e: e.get("kind") == "trial" and e["res"][0]["cls"] == "QConv2D")
  if i is None:
    return None
  old = events[i]["res"][0]["kernel"]
  events[i]["res"][0]["kernel"] = "q8"            # an 8-bit kernel under a 4-bit limit
  return i, "res[0].kernel: %s -> q8" % old


FAR = [3, 20]          # 3 * 2^20: neither a code, nor a power of two, nor a gradient, nor near anything observed
CORRUPT = {
    "Trace_QFixed": _set("y", FAR, lambda e: e.get("k") == "call"),
    "Trace_QPo2": _set("y", FAR),
    "Trace_QGrad": _set("g", FAR),
    "Trace_QStoch": _set("y", FAR),
    "Trace_QBinTern": _first_elem("y", FAR),
    "Trace_QAuto": _first_elem("y", FAR),
    "Trace_QNoise": _set("ni", lambda old, e: old + 1, lambda e: e.get("a") == "BatchBegin"),
    "Trace_QKnob": _set("v20", lambda old, e: (old + 4096) % (1 << 20), lambda e: e.get("a") in ("Update", "Build", "Rebuild")),
    "Trace_QRoundTrip": _first_elem("y", FAR, lambda e: e.get("a") == "Probe" and e.get("after") != "New"),
    "Trace_ModelRT": _first_elem("y", FAR, lambda e: e.get("a") == "Probe" and e.get("after") != "New"),
    "Trace_SafeEval": _sub("got", {"status": "ok", "args": [["int", "99"]], "kwargs": []}, None,
                           lambda e: e.get("k") == "parse" and e["got"].get("status") == "ok"),
    "Trace_QTypes": _sub("out", {"bits": 1, "int": 0}, None, lambda e: e.get("op") == "acc" and e.get("n", 0) >= 2),
    "Trace_QModel": _sub("acc", {"bits": 1, "int": 0}, None, lambda e: e.get("k") == "layer" and e.get("pattern") == "maxmax"),
    "Trace_QOps": _set("reported", lambda old, e: old + 1, lambda e: e.get("k") == "count"),
    "Trace_QLayer": _bump_nested("pre", lambda e: e.get("kind") == "layer"),
    "Trace_BNFold": _bump_nested("y", lambda e: e.get("kind") == "layer"),
    "Trace_Export": _set("pred", 0, lambda e: e.get("kind") == "model" and e.get("indep") == 1),
    "Trace_ModelGraph": _set("src", 0),
    "Trace_ModelGraphX": _set("src", 0),
    "Trace_AutoQ": _autoq,
}


def maybe_selfcheck(module, cfg, env, run):
  """Called by run_tlc for Trace_* modules. `run(env)` runs TLC and returns a TLCResult."""
  if not os.environ.get("VERIF_SELFCHECK") or not env or "TRACE_FILE" not in env:
    return
  name = os.path.basename(module).replace(".tla", "")
  with _lock:
    if name in _done:
      return
    _done.add(name)
  rec = {"spec": name}
  fn = CORRUPT.get(name)
  events = [json.loads(l) for l in open(env["TRACE_FILE"]) if l.strip()]
  hit = fn(events) if fn else None
  if hit is None:
    rec["result"] = "no corruptor applies"
  else:
    idx, desc = hit
    bad = env["TRACE_FILE"] + ".corrupt"
    with open(bad, "w") as fh:
      for e in events:
        fh.write(json.dumps(e, separators=(",", ":")) + "\n")
    clean = [json.dumps(p) for p in run(dict(env)).prints() if p and p[0] == "REJECT"]
    corrupted = [json.dumps(p) for p in run(dict(env, TRACE_FILE=bad)).prints() if p and p[0] == "REJECT"]
    extra = list(corrupted)
    for c in clean:
      if c in extra:
        extra.remove(c)
    os.remove(bad)
    rec.update({"event": idx + 1, "of": len(events), "corruption": desc, "rejected": bool(extra), "reject": extra[:1]})
    rec["result"] = "rejected" if extra else "ACCEPTED"
  out = os.environ.get("VERIF_OUT") or os.path.dirname(os.path.dirname(os.path.abspath(__file__)))
  with _lock:
    with open(os.path.join(out, "selfcheck.jsonl"), "a") as fh:
      fh.write(json.dumps(rec) + "\n")
  if rec["result"] == "ACCEPTED":
    from common import Machinery
    raise Machinery("selfcheck: %s accepted a corrupted trace (%s at event %d)" % (name, desc, idx + 1))
