"""Driver for C18: QTools data-type map of concrete small models vs the tensors the models really produce.

usage: drive_qmodel.py <unused> <out_prefix> <tier> <seed> <shard> <nshards>
"""
import itertools
import json
import random
import sys
import numpy as np
from qk import tf, Q, qkeras
from qkeras import QDense, QConv2D, QConv1D, QDepthwiseConv2D, QActivation
from qkeras.qtools import run_qtools, qtools_util
from qkeras import estimate
from common import dy, write_ndjson
from drive_qtypes import reported

L = tf.keras.layers

WEIGHT_Q = {
    "bits4": (lambda: Q.quantized_bits(4, 0, 1, alpha=1.0), 0.875, -0.875),
    "bits5i2": (lambda: Q.quantized_bits(5, 2, 1, alpha=1.0), 3.75, -3.75),
    "bits3u": (lambda: Q.quantized_bits(3, 0, 1, keep_negative=False, alpha=1.0), 0.875, 0.0),
    "po2_4": (lambda: Q.quantized_po2(4), 8.0, -8.0),
    "po2_3m2": (lambda: Q.quantized_po2(3, max_value=2), 2.0, -2.0),
    "ternary": (lambda: Q.ternary(alpha=1.0), 1.0, -1.0),
    "binary": (lambda: Q.binary(alpha=1.0), 1.0, -1.0),
    # data-dependent power-of-two scale per output channel: the reported (fused) accumulator has to absorb the scales
    "auto4": (lambda: Q.quantized_bits(4, 0, 1, alpha="auto_po2"), 0.875, -0.875),
}
CH_FACTORS = [4.0, 0.25, 1.0, 8.0]
INPUT_Q = {
    "bits6": ("quantized_bits(6,2,1)", 3.875, -4.0),       # symmetric=1: min code -3.875
    "relu4": ("quantized_relu(4,1)", 1.875, 0.0),
    "bits3": ("quantized_bits(3,0,1)", 0.75, -0.75),
    # the other activation quantizers the type map knows
    "tanh4": ("quantized_tanh(4)", 0.875, -1.0),
    "bin": ("binary(alpha=1.0)", 1.0, -1.0),
    "tern": ("ternary(alpha=1.0)", 1.0, -1.0),
    "rpo2": ("quantized_relu_po2(4,max_value=4)", 4.0, 0.0),
    "po2": ("quantized_po2(4,max_value=2)", 2.0, -2.0),
}
BIAS_Q = {
    "none": None,
    "bits6": (lambda: Q.quantized_bits(6, 1, 1, alpha=1.0), 1.9375),
    "bits8i4": (lambda: Q.quantized_bits(8, 4, 1, alpha=1.0), 15.875),
}


def make_layer(kind, wq, bq, name, units=3, act=None):
  kw = dict(kernel_quantizer=WEIGHT_Q[wq][0](), name=name)
  if act:
    kw["activation"] = act
  if BIAS_Q[bq] is None:
    kw["use_bias"] = False
  else:
    kw["bias_quantizer"] = BIAS_Q[bq][0]()
  if kind == "dense":
    return QDense(units, **kw)
  if kind == "conv2d":
    return QConv2D(units, (2, 3), padding="same", **kw)
  if kind == "conv1d":
    return QConv1D(units, 3, **kw)
  if kind == "depthwise":
    kw["depthwise_quantizer"] = kw.pop("kernel_quantizer")
    return QDepthwiseConv2D((2, 2), **kw)
  raise ValueError(kind)


def stats(a):
  a = np.asarray(a, dtype=np.float64).reshape(-1)
  mx, mn = float(a.max()), float(a.min())
  nz = a[a != 0]
  gran = 60
  for v in nz:
    m, e = dy(v)
    gran = min(gran, e)
  return [dy(mx), dy(mn)], int(gran)


def main():
  _, prefix, tier, seed, shard, nshards = sys.argv[1:7]
  seed, shard, nshards = int(seed), int(shard), int(nshards)
  rnd = random.Random(seed)
  combos = list(itertools.product(("dense", "conv2d", "conv1d", "depthwise"), sorted(WEIGHT_Q), sorted(INPUT_Q),
                                  sorted(BIAS_Q), (1, 2)))
  rnd.shuffle(combos)
  if tier == "quick":
    combos = combos[:240]
  events, errors = [], []
  for j, (kind, wq, iq, bq, depth) in enumerate(combos):
    if j % nshards != shard:
      continue
    if iq == "rpo2" and wq.startswith("po2"):
      continue        # po2 x relu_po2 products are decided (and recorded, F-C16-4) at type level; nothing to add end to end
    meta = {"kind": kind, "wq": wq, "iq": iq, "bq": bq, "depth": depth}
    try:
      shape = {"dense": (5,), "conv2d": (4, 4, 2), "conv1d": (6, 2), "depthwise": (4, 4, 2)}[kind]
      i = L.Input(shape)
      x = QActivation(INPUT_Q[iq][0], name="in_act")(i)
      # a layer that only passes values through (identity on the numbers): the type of its input edge has to arrive
      # unchanged at the layer behind it
      if rnd.random() < 0.35:
        meta["pass"] = 1
        x = {"dense": lambda t: L.Flatten(name="pt")(t), "conv1d": lambda t: L.Reshape(shape, name="pt")(t)}.get(
            kind, lambda t: L.MaxPooling2D((1, 1), name="pt")(t))(x)
      # (a third of the two-layer models: l1 ends in a plain function activation; its outputs feed l2 directly)
      plain_act = "relu" if depth == 2 and rnd.random() < 0.33 else None
      if plain_act:
        meta["l1_act"] = plain_act
      lays = [make_layer(kind, wq, bq, "l1", act=plain_act)]
      x = lays[0](x)
      if depth == 2:
        if kind == "dense":
          lays.append(make_layer("dense", rnd.choice(["bits4", "ternary"]), rnd.choice(["none", "bits6"]), "l2", units=2))
        else:
          lays.append(make_layer(kind, "bits4", "none", "l2", units=2))
        x = lays[1](x)
      model = tf.keras.Model(i, x)
      probe = tf.keras.Model(i, [model.get_layer("in_act").output] + [l.output for l in lays])
      wmax, wmin = WEIGHT_Q[wq][1], WEIGHT_Q[wq][2]
      xin_max, xin_min = INPUT_Q[iq][1], INPUT_Q[iq][2]
      # (weights sign, inputs sign, bias sign); "maxmin_bneg": negative products AND a negative bias - all sign-aligned
      patterns = [("maxmax", 1, 1, 1), ("minmin", -1, -1, -1), ("maxmin", 1, -1, 1), ("maxmin_bneg", 1, -1, -1), ("rand", 0, 0, 0),
                  ("rand2", 0, 0, 0)]
      for pname, ws, xs, bs in patterns:
        for l in lays:
          ws_ = l.get_weights()
          k = ws_[0]
          lw = WEIGHT_Q[wq] if l.name == "l1" else WEIGHT_Q["bits4" if kind != "dense" else "bits4"]
          qk = l.get_quantizers()[0]
          if ws == 0:
            k = np.random.RandomState(rnd.randint(0, 10 ** 6)).uniform(-4, 4, k.shape)
          else:
            k = np.full(k.shape, wmax if ws > 0 else wmin)
          if l.name == "l1" and wq == "auto4" and kind != "depthwise":
            k = k * np.array(CH_FACTORS[:k.shape[-1]])           # per-output-channel magnitudes -> scales != 1
          ws_[0] = np.asarray(qk(tf.constant(k, dtype=tf.float32)))
          if l.use_bias:
            qb = l.get_quantizers()[1]
            b = np.full(ws_[1].shape, 100.0 if bs >= 0 else -100.0) if ws != 0 else \
                np.random.RandomState(rnd.randint(0, 10 ** 6)).uniform(-20, 20, ws_[1].shape)
            ws_[1] = np.asarray(qb(tf.constant(b, dtype=tf.float32)))
          l.set_weights(ws_)
        if xs == 0:
          xin = np.random.RandomState(rnd.randint(0, 10 ** 6)).uniform(-5, 5, (3,) + shape)
        else:
          xin = np.full((1,) + shape, 100.0 if xs > 0 else -100.0)
        outs = probe.predict(xin.astype(np.float32), verbose=0)
        if wq == "auto4":      # an eager call leaves a concrete quantizer.scale behind (predict() traces a graph)
          model(tf.constant(xin[:1].astype(np.float32)))
        q = run_qtools.QTools(model, process="horowitz", source_quantizers=[Q.quantized_bits(8, 3, 1)],
                              is_inference=False, weights_path=None, keras_quantizer="fp32",
                              keras_accumulator="fp32", for_reference=False)
        dmap = q._layer_map["layer_data_type_map"]
        layer_inputs = [outs[0]] + list(outs[1:-1])
        for l, xin_l, pre in zip(lays, layer_inputs, outs[1:]):
          item = dmap[l]
          get = lambda kk: qtools_util.get_val(item, kk)
          wts = l.get_weights()
          auto = l.name == "l1" and wq == "auto4"
          acc_item = get("fused_accumulator") if auto and get("fused_accumulator") is not None else get("accumulator")
          if auto:       # the reported weight type describes the code: weight / scale
            sc = np.asarray(l.get_quantizers()[0].scale, dtype=np.float64)
            wts = [wts[0] / np.broadcast_to(sc, wts[0].shape)] + wts[1:]
          p, pg = stats(pre)
          # the published report (QTools._output_dict / the JSON file) states int_bits INCLUDING the sign bit for
          # fixed-point types; it has to describe the same types as the map
          jd = q._output_dict.get(l.name, {})
          jok = 1
          for key, obj in (("accumulator", get("accumulator").output), ("weight_quantizer", get("weight_quantizer")),
                           ("bias_quantizer", get("bias_quantizer") if l.use_bias else None),
                           ("input_quantizer_list", get("input_quantizer_list")[0])):
            je = jd.get(key)
            je = je[0] if isinstance(je, list) and je else je
            if obj is None or not je or int(getattr(obj, "mode", -1)) != 0 or getattr(obj, "is_po2", 0) or obj.is_floating_point:
              continue
            if (int(je.get("bits", -1)) != int(obj.bits) or int(bool(je.get("is_signed"))) != int(bool(obj.is_signed)) or
                int(je.get("int_bits", -99)) != int(obj.int_bits) + int(bool(obj.is_signed))):
              jok = 0
          ev = {"k": "layer", "jok": jok, "meta": meta, "pattern": pname, "layer": l.name, "cls": l.__class__.__name__,
                "acc": reported(acc_item.output), "auto": int(auto), "wt": reported(get("weight_quantizer")),
                "it": reported(get("input_quantizer_list")[0]), "hasb": int(bool(l.use_bias)),
                "bt": reported(get("bias_quantizer")) if l.use_bias else reported(get("weight_quantizer")),
                "pre": p, "pregran": pg, "w": stats(wts[0])[0], "b": stats(wts[1])[0] if l.use_bias else [[0, 0], [0, 0]],
                "x": stats(xin_l)[0]}
          events.append(ev)
        # weight-based estimator: inputs inside the stated range = the range actually fed to each layer
        try:
          ranges = {l.name: (float(np.min(xi)), float(np.max(xi))) for l, xi in zip(lays, layer_inputs)}
          if any(a == 0 and b == 0 for a, b in ranges.values()) or any(not np.any(l.get_weights()[0]) for l in lays):
            raise KeyError("degenerate")          # an all-zero input range has no log2 (outside the estimator's domain)
          sizes = estimate.analyze_accumulator(model, ranges)
          for l, pre in zip(lays, outs[1:]):
            events.append({"k": "estimate", "meta": meta, "pattern": pname, "layer": l.name, "cls": l.__class__.__name__,
                           "size": int(sizes[l.name]), "obs": dy(float(np.max(np.abs(pre)))),
                           "range": list(ranges[l.name]), "hasb": int(bool(l.use_bias))})
          # the sample-based front ends: "sampled" sizes from the observed outputs, "conservative" derives the
          # ranges from the sample and runs the weight-based estimator
          if pname in ("maxmax", "rand") and (j // nshards) % 2 == 0:
            for mode in ("sampled", "conservative"):
              sz = estimate.analyze_accumulator_from_sample(model, xin.astype(np.float32), mode=mode)
              for l, pre in zip(lays, outs[1:]):
                events.append({"k": "estimate", "meta": meta, "pattern": pname + "/" + mode, "layer": l.name,
                               "cls": l.__class__.__name__, "size": int(sz[l.name]), "obs": dy(float(np.max(np.abs(pre)))),
                               "range": list(ranges[l.name]), "hasb": int(bool(l.use_bias))})
        except KeyError:
          pass
        except Exception as e:
          errors.append({"k": "estimator_raises", "meta": meta, "pattern": pname, "exc": repr(e)[:200]})
    except Exception as e:
      errors.append({"k": "exc", "meta": meta, "exc": repr(e)[:300]})
  # two model inputs given in another order than they were created, each with its own source quantizer: the type map
  # has to pair source quantizers with model.inputs
  if shard == 3 % nshards:
    for swap in (False, True):
      meta = {"kind": "two_inputs", "wq": "bits4", "iq": "src", "bq": "none", "depth": 1}
      try:
        a = L.Input((4,), name="in_a")
        b = L.Input((4,), name="in_b")
        la = QDense(3, kernel_quantizer=WEIGHT_Q["bits4"][0](), use_bias=False, name="l1")
        lb = QDense(3, kernel_quantizer=WEIGHT_Q["bits4"][0](), use_bias=False, name="l2")
        out = L.Add(name="add")([la(a), lb(b)])
        ins = [b, a] if swap else [a, b]
        model = tf.keras.Model(ins, out)
        src = {"in_a": Q.quantized_bits(8, 5, 1), "in_b": Q.quantized_bits(2, 0, 1)}      # a: wide, b: narrow
        for l in (la, lb):
          l.set_weights([np.full(l.get_weights()[0].shape, 0.875, dtype=np.float32)])
        xa = np.full((1, 4), 31.75, dtype=np.float32)           # top code of quantized_bits(8,5,1)
        xb = np.full((1, 4), 0.5, dtype=np.float32)             # top code of quantized_bits(2,0,1)
        feed = {"in_a": xa, "in_b": xb}
        probe = tf.keras.Model(ins, [la.output, lb.output])
        pa, pb = probe.predict([feed[t.name] for t in ins], verbose=0)
        q = run_qtools.QTools(model, process="horowitz", source_quantizers=[src[t.name] for t in ins], is_inference=False,
                              weights_path=None, keras_quantizer="fp32", keras_accumulator="fp32", for_reference=False)
        dmap = q._layer_map["layer_data_type_map"]
        for l, xin_l, pre in ((la, xa, pa), (lb, xb, pb)):
          get = lambda kk: qtools_util.get_val(dmap[l], kk)
          p, pg = stats(pre)
          events.append({"k": "layer", "jok": 1, "meta": meta, "pattern": "swapped" if swap else "declared", "layer": l.name, "cls": "QDense",
                         "acc": reported(get("accumulator").output), "auto": 0, "wt": reported(get("weight_quantizer")),
                         "it": reported(get("input_quantizer_list")[0]), "hasb": 0, "bt": reported(get("weight_quantizer")),
                         "pre": p, "pregran": pg, "w": stats(l.get_weights()[0])[0], "b": [[0, 0], [0, 0]], "x": stats(xin_l)[0]})
      except Exception as e:
        errors.append({"k": "exc", "meta": meta, "exc": repr(e)[:300]})
    # the weight-based estimator on a Sequential model (no InputLayer among its layers)
    meta = {"kind": "sequential", "wq": "bits4", "iq": "relu4", "bq": "none", "depth": 1}
    try:
      seq = tf.keras.Sequential([QDense(3, kernel_quantizer=WEIGHT_Q["bits4"][0](), use_bias=False, name="l1", input_shape=(6,)),
                                 QActivation("quantized_relu(4,1)", name="act"),
                                 QDense(2, kernel_quantizer=WEIGHT_Q["bits4"][0](), use_bias=False, name="l2")])
      seq.get_layer("l1").set_weights([np.full((6, 3), 0.875, dtype=np.float32)])
      seq.get_layer("l2").set_weights([np.full((3, 2), 0.875, dtype=np.float32)])
      xin = np.full((1, 6), 3.5, dtype=np.float32)
      pre1 = tf.keras.Model(seq.inputs, seq.get_layer("l1").output).predict(xin, verbose=0)
      sizes = estimate.analyze_accumulator(seq, {"l1": (0.0, 3.5), "l2": (0.0, 1.875)})
      events.append({"k": "estimate", "meta": meta, "pattern": "sequential", "layer": "l1", "cls": "QDense", "size": int(sizes["l1"]),
                     "obs": dy(float(np.max(np.abs(pre1)))), "range": [0.0, 3.5]})
    except Exception as e:
      errors.append({"k": "estimator_raises", "meta": meta, "pattern": "sequential", "exc": repr(e)[:200]})
  # depthwise layers with depth_multiplier > 1: the estimator has to look at every filter of every input channel
  if shard == 2 % nshards:
    for t in range(3):
      meta = {"kind": "depthwise_dm2", "wq": "bits4", "iq": "relu4", "bq": "none", "depth": 1}
      try:
        i = L.Input((4, 4, 2))
        x = QActivation(INPUT_Q["relu4"][0], name="in_act")(i)
        lay = QDepthwiseConv2D((2, 2), depth_multiplier=2 + t % 2, depthwise_quantizer=WEIGHT_Q["bits4"][0](), use_bias=False, name="l1")
        model = tf.keras.Model(i, lay(x))
        k = np.full(lay.get_weights()[0].shape, 0.125, dtype=np.float32)
        k[:, :, t % 2, -1] = 0.875 if t != 1 else -0.875          # the heaviest filter is not the first one of its channel
        lay.set_weights([k])
        xin = np.full((1, 4, 4, 2), 1.875, dtype=np.float32)
        pre = model.predict(xin, verbose=0)
        sizes = estimate.analyze_accumulator(model, {"l1": (0.0, 1.875)})
        events.append({"k": "estimate", "meta": meta, "pattern": "dm", "layer": "l1", "cls": "QDepthwiseConv2D",
                       "size": int(sizes["l1"]), "obs": dy(float(np.max(np.abs(pre)))), "range": [0.0, 1.875]})
      except Exception as e:
        errors.append({"k": "estimator_raises", "meta": meta, "pattern": "dm", "exc": repr(e)[:200]})
  # stated input ranges that lie on one side of zero, bias of either sign, weights of mixed sign: the observed extreme is
  # taken over all corner inputs of the range
  if shard == 4 % nshards:
    for t, (lo, hi, bias) in enumerate(((2.0, 3.0, -1.75), (2.0, 3.0, 1.75), (0.5, 3.5, -3.0), (1.0, 1.5, 2.5), (2.0, 3.0, -3.75))):
      meta = {"kind": "dense_onesided", "wq": "bits5i2", "iq": "bits6", "bq": "bits8i4", "depth": 1}
      try:
        i = L.Input((3,))
        lay = QDense(2, kernel_quantizer=Q.quantized_bits(5, 2, 1, alpha=1.0), bias_quantizer=Q.quantized_bits(8, 4, 1, alpha=1.0), name="l1")
        model = tf.keras.Model(i, lay(i))
        k = np.array([[1.75, -1.5], [-0.75, 1.25], [1.0, 1.75]], dtype=np.float32)
        if t == 4:       # all weights positive, a small negative bias: the true extreme 3 * 3 - 0.75 sits just above 2^3
          k, bias = np.ones((3, 2), dtype=np.float32), -0.75
        lay.set_weights([k, np.array([bias, bias if t == 4 else -bias], dtype=np.float32)])    # (one size per layer: the largest channel)
        corners = np.array(list(itertools.product((lo, hi), repeat=3)), dtype=np.float32)
        pre = model.predict(corners, verbose=0)
        sizes = estimate.analyze_accumulator(model, {"l1": (lo, hi)})
        events.append({"k": "estimate", "meta": meta, "pattern": "onesided%d" % t, "layer": "l1", "cls": "QDense", "size": int(sizes["l1"]),
                       "obs": dy(float(np.max(np.abs(pre)))), "range": [lo, hi], "hasb": 1})
      except Exception as e:
        errors.append({"k": "estimator_raises", "meta": meta, "pattern": "onesided", "exc": repr(e)[:200]})
  # a batch-norm FOLDED layer: the estimator has to size the folded kernel / bias (what the layer computes at inference),
  # not the raw kernel variable
  if shard == 3 % nshards:
    from qkeras import QConv2DBatchnorm
    for t, (gam, beta) in enumerate(((8.0, 0.0), (4.0, 6.0), (0.5, 0.0))):
      meta = {"kind": "folded_conv2d", "wq": "bits8i4", "iq": "relu4", "bq": "none", "depth": 1}
      try:
        i = L.Input((3, 3, 2))
        x = QActivation(INPUT_Q["relu4"][0], name="in_act")(i)
        lay = QConv2DBatchnorm(2, (2, 2), kernel_quantizer=Q.quantized_bits(8, 4, 1, alpha=1.0), bias_quantizer=Q.quantized_bits(8, 4, 1, alpha=1.0),
                               use_bias=True, epsilon=2.0 ** -20, name="l1")
        model = tf.keras.Model(i, lay(x))
        vals = {"kernel": np.full((2, 2, 2, 2), 0.875), "bias": np.zeros(2), "gamma": np.full(2, gam), "beta": np.full(2, beta),
                "moving_mean": np.zeros(2), "moving_variance": np.full(2, 1.0 - 2.0 ** -20)}
        ws = []
        for v in lay.weights:
          nm = v.name.split("/")[-1].split(":")[0]
          ws.append(np.asarray(vals[nm], dtype=v.dtype.as_numpy_dtype).reshape(v.shape) if nm in vals else v.numpy())
        lay.set_weights(ws)
        xin = np.full((1, 3, 3, 2), 1.875, dtype=np.float32)
        pre = model.predict(xin, verbose=0)
        sizes = estimate.analyze_accumulator(model, {"l1": (0.0, 1.875)})
        events.append({"k": "estimate", "meta": meta, "pattern": "folded", "layer": "l1", "cls": "QConv2DBatchnorm",
                       "size": int(sizes["l1"]), "obs": dy(float(np.max(np.abs(pre)))), "range": [0.0, 1.875]})
      except Exception as e:
        errors.append({"k": "estimator_raises", "meta": meta, "pattern": "folded", "exc": repr(e)[:200]})
  write_ndjson("%s.%d.ndjson" % (prefix, shard), events)
  json.dump(errors, open("%s.%d.err.json" % (prefix, shard), "w"))
  print(json.dumps({"events": len(events), "errors": len(errors)}))


if __name__ == "__main__":
  main()
