"""Driver for C15: folded conv+BN layers at inference, unfold_model, convert_to_folded_model / model_quantize.

usage: drive_bnfold.py <unused> <out_prefix> <tier> <seed> <shard> <nshards>
"""
import json
import random
import sys
import numpy as np
from qk import tf, Q, qkeras
from qkeras import QConv2DBatchnorm, QDepthwiseConv2DBatchnorm, QActivation, QDense
from qkeras import bn_folding_utils
from qkeras import utils as qutils
from common import write_ndjson
from drive_layers import Proxy, ints

L = tf.keras.layers
EX, EK, EG, EB = -2, -3, -1, -2
EFK, EFB = EK + EG - 2, EB + EG - 2
EPS = 2.0 ** -10


def rints(rnd, shape, lo, hi, exp):
  return (np.array([rnd.randint(lo, hi) for _ in range(int(np.prod(shape)))], dtype=np.float64).reshape(shape) * 2.0 ** exp).astype(np.float32)


def set_named(lay, values):
  ws = []
  for v in lay.weights:
    n = v.name.split("/")[-1].split(":")[0]
    key = [k for k in values if n.startswith(k)]
    if not key:
      ws.append(v.numpy())
    else:
      ws.append(np.reshape(values[key[0]], v.shape).astype(v.dtype.as_numpy_dtype))
  lay.set_weights(ws)


def layer_case(rnd, center_only=None):
  dw = rnd.random() < 0.4
  mode = rnd.choice(["ema_stats_folding", "batch_stats_folding"])
  usebias = rnd.random() < 0.6
  scale = rnd.random() < 0.8
  center = True if center_only is None else center_only
  hasq = rnd.random() < 0.5
  pad = rnd.choice(["valid", "same"])
  s = rnd.choice([1, 1, 2])
  d = rnd.choice([1, 2]) if s == 1 else 1
  kh, kw_ = rnd.choice([1, 2]), rnd.choice([1, 2, 3])
  h, w = rnd.choice([3, 4]), rnd.choice([3, 4, 5])
  if pad == "valid":
    h, w = max(h, kh + (kh - 1) * (d - 1)), max(w, kw_ + (kw_ - 1) * (d - 1))
  cin, cout = rnd.choice([1, 2]), rnd.choice([1, 2, 3])
  nch = cin if dw else cout
  log = []
  # (ema_freeze_delay: the step after which training freezes the moving statistics; irrelevant to inference, which
  #  always uses the moving statistics and never updates anything)
  kw = dict(kernel_size=(kh, kw_), strides=(s, s), padding=pad, use_bias=usebias, folding_mode=mode, epsilon=EPS,
            center=center, scale=scale, ema_freeze_delay=rnd.choice([None, None, 0, 5]))
  if hasq:
    kq = Proxy(Q.quantized_bits(8, 2, 1, alpha=1.0), "kernel", log)      # grid 2^-5
    bq = Proxy(Q.quantized_bits(8, 3, 1, alpha=1.0), "bias", log)        # grid 2^-4
  if dw:
    kw["dilation_rate"] = (d, d)
    if hasq:
      kw.update(depthwise_quantizer=kq, bias_quantizer=bq)
    lay = QDepthwiseConv2DBatchnorm(**kw)
  else:
    kw["dilation_rate"] = (d, d)
    if hasq:
      kw.update(kernel_quantizer=kq, bias_quantizer=bq)
    lay = QConv2DBatchnorm(cout, **kw)
  lay(tf.zeros((1, h, w, cin)), training=False)         # first call creates the batch-norm variables
  k = rints(rnd, (kh, kw_, cin, 1 if dw else cout), -6, 6, EK)
  b = rints(rnd, (nch,), -5, 5, EB)
  mean = rints(rnd, (nch,), -5, 5, EB)
  gam = rints(rnd, (nch,), 0, 4, EG) if scale else np.ones((nch,), np.float32)
  beta = rints(rnd, (nch,), -20, 20, EFB) if center else np.zeros((nch,), np.float32)
  J = np.array([rnd.randint(0, 2) for _ in range(nch)])
  var = (4.0 ** J - EPS).astype(np.float32)
  vals = {"kernel": k, "depthwise_kernel": k, "bias": b, "gamma": gam, "beta": beta, "moving_mean": mean,
          "moving_variance": var}
  if not usebias:
    b = np.zeros((nch,), np.float32)
  set_named(lay, vals)
  x = rints(rnd, (1, h, w, cin), -6, 6, EX)
  del log[:]
  w_before = [w.copy() for w in lay.get_weights()]
  y = lay(tf.constant(x), training=False).numpy()
  state_ok = all(np.array_equal(a, b_) for a, b_ in zip(w_before, lay.get_weights()))     # inference leaves every variable alone
  fk, fb = [np.asarray(v) for v in lay.get_folded_weights()]
  g = {"sh": s, "sw": s, "dh": d, "dw": d, "pad": pad}
  ev = {"kind": "layer", "dw": int(dw), "mode": mode, "g": g, "usebias": int(usebias), "hasq": int(hasq), "center": int(center),
        "scale": int(scale), "x": ints(x[0], EX), "k": ints(k, EK), "b": ints(b, EB), "mean": ints(mean, EB),
        "gam": ints(gam, EG), "beta": ints(beta, EFB), "J": [int(v) for v in J],
        "fk": ints(fk, EFK), "fb": ints(np.broadcast_to(fb, (nch,)), EFB)}
  if hasq:
    rec = {r: (a, bb) for r, a, bb in log}
    ev["kin"] = ints(rec["kernel"][0], EFK)
    ev["qk"] = ints(rec["kernel"][1], -5)
    ev["qb"] = ints(np.broadcast_to(rec["bias"][1], (nch,)), -4)
    ev["EQ"] = -4 - (EX - 5)
    ev["y"] = ints(y[0], EX - 5)
    ev["stock"] = 1
  else:
    ev["kin"], ev["qk"], ev["qb"], ev["EQ"] = [[[[0]]]], [[[[0]]]], [0], 0
    ev["y"] = ints(y[0], EX + EFK)
    # the stock pair with the same parameters
    if dw:
      conv = L.DepthwiseConv2D((kh, kw_), strides=(s, s), padding=pad, use_bias=usebias, dilation_rate=(d, d))
    else:
      conv = L.Conv2D(cout, (kh, kw_), strides=(s, s), padding=pad, use_bias=usebias, dilation_rate=(d, d))
    bn = L.BatchNormalization(epsilon=EPS, center=center, scale=scale)
    yy = conv(tf.constant(x))
    conv.set_weights([k] + ([b] if usebias else []))
    yy = conv(tf.constant(x))
    _ = bn(yy, training=False)
    set_named(bn, {"gamma": gam, "beta": beta, "moving_mean": mean, "moving_variance": var})
    ev["stock"] = int(np.array_equal(bn(yy, training=False).numpy(), y))
  ev["stock"] = int(ev["stock"] and state_ok)
  return ev


def model_cases(rnd, events, errors, n):
  for _ in range(n):
    # --- unfold_model on a model with folded layers
    try:
      hasq = rnd.random() < 0.6
      kq = "quantized_bits(8,2,1,alpha=1.0)" if hasq else None
      # or a kernel quantizer with a data-dependent scale that is not idempotent at 3 bits: the unfolded layer has to
      # quantize the folded kernel exactly once, like the folded layer does
      auto = hasq and rnd.random() < 0.4
      kq1 = "quantized_bits(3,0,1,alpha='auto_po2')" if auto else kq
      i = L.Input((5, 5, 2))
      x = QConv2DBatchnorm(3, (2, 2), kernel_quantizer=kq1, bias_quantizer=kq, use_bias=rnd.random() < 0.5, epsilon=EPS,
                           folding_mode=rnd.choice(["ema_stats_folding", "batch_stats_folding"]), name="f1")(i)
      x = QActivation("quantized_relu(6,2)")(x)
      x = QDepthwiseConv2DBatchnorm((2, 2), depthwise_quantizer=kq, bias_quantizer=kq, epsilon=EPS, name="f2")(x)
      if rnd.random() < 0.5:
        x = L.Add()([x, x])
      m = tf.keras.Model(i, x)
      for name, nch, cin_, shp in (("f1", 3, 2, (2, 2, 2, 3)), ("f2", 3, 3, (2, 2, 3, 1))):
        lay = m.get_layer(name)
        J = np.array([rnd.randint(0, 2) for _ in range(nch)])
        set_named(lay, {"kernel": rints(rnd, shp, -6, 6, EK), "depthwise_kernel": rints(rnd, shp, -6, 6, EK),
                        "bias": rints(rnd, (nch,), -5, 5, EB), "gamma": rints(rnd, (nch,), 1, 4, EG),
                        "beta": rints(rnd, (nch,), -20, 20, EFB), "moving_mean": rints(rnd, (nch,), -5, 5, EB),
                        "moving_variance": (4.0 ** J - EPS).astype(np.float32)})
      xin = rints(rnd, (2, 5, 5, 2), -6, 6, EX)
      y0 = m.predict(xin, verbose=0)
      um = bn_folding_utils.unfold_model(m)
      y1 = um.predict(xin, verbose=0)
      events.append({"kind": "model", "op": "unfold", "same": int(np.array_equal(y0, y1)), "hasq": int(hasq),
                     "unfolded_classes": [l.__class__.__name__ for l in um.layers]})
    except Exception as e:
      errors.append({"k": "exc", "op": "unfold", "exc": repr(e)[:300]})
    # --- conv + BN model converted to a folded model
    try:
      branch = rnd.random() < 0.5
      i = L.Input((5, 5, 2))
      c = L.Conv2D(3, (2, 2), use_bias=rnd.random() < 0.5, name="c")(i)
      x = L.BatchNormalization(epsilon=EPS, name="bn")(c)
      if branch:
        side = L.Conv2D(3, (1, 1), name="side")(c)       # the conv output also feeds a side branch: not foldable
        x = L.Add(name="add")([x, side])
      x = L.DepthwiseConv2D((2, 2), name="d")(x)
      x = L.BatchNormalization(epsilon=EPS, name="bn2")(x)
      # a batch-norm behind a layer class that has NO folded counterpart stays a batch-norm
      sep = rnd.random() < 0.4
      if sep:
        x = L.SeparableConv2D(3, (1, 1), name="s")(x)
        x = L.BatchNormalization(epsilon=EPS, name="bn3")(x)
      m = tf.keras.Model(i, x)
      for name in ("bn", "bn2") + (("bn3",) if sep else ()):
        J = np.array([rnd.randint(0, 2) for _ in range(3)])
        set_named(m.get_layer(name), {"gamma": rints(rnd, (3,), 1, 4, EG), "beta": rints(rnd, (3,), -20, 20, EFB),
                                      "moving_mean": rints(rnd, (3,), -5, 5, EB),
                                      "moving_variance": (4.0 ** J - EPS).astype(np.float32)})
      if sep:
        lay = m.get_layer("s")
        lay.set_weights([rints(rnd, (1, 1, 3, 1), -3, 3, 0), rints(rnd, (1, 1, 3, 3), -3, 3, 0), rints(rnd, (3,), -5, 5, EB)])
      for name, shp in (("c", (2, 2, 2, 3)), ("d", (2, 2, 3, 1))) + ((("side", (1, 1, 3, 3)),) if branch else ()):
        lay = m.get_layer(name)
        ws = lay.get_weights()
        ws[0] = rints(rnd, shp, -6, 6, EK)
        if len(ws) > 1:
          ws[1] = rints(rnd, ws[1].shape, -5, 5, EB)
        lay.set_weights(ws)
      xin = rints(rnd, (2, 5, 5, 2), -6, 6, EX)
      y0 = m.predict(xin, verbose=0)
      wide = "quantized_bits(16,7,1,alpha=1.0)"            # exact on the dyadic folded weights
      qcfg = {"QConv2DBatchnorm": {"kernel_quantizer": wide, "bias_quantizer": wide},
              "QDepthwiseConv2DBatchnorm": {"depthwise_quantizer": wide, "bias_quantizer": wide}}
      unfolded_names = rnd.random() < 0.5
      if unfolded_names:          # the documented fallback: entries under the names of the un-folded classes
        qcfg = {"QConv2D": qcfg["QConv2DBatchnorm"], "QDepthwiseConv2D": qcfg["QDepthwiseConv2DBatchnorm"]}
      qm = qutils.model_quantize(m, qcfg, 4, transfer_weights=False, enable_bn_folding=True)
      # the conversion does not carry weights over: load the source parameters into the converted model by name
      bn_of = {"c": "bn", "d": "bn2"}
      for lay in qm.layers:
        if lay.__class__.__name__ in ("QConv2DBatchnorm", "QDepthwiseConv2DBatchnorm"):
          src, bn = m.get_layer(lay.name), m.get_layer(bn_of[lay.name])
          vals = {v.name.split("/")[-1].split(":")[0]: v.numpy() for v in bn.weights}
          sw = src.get_weights()
          vals["kernel"] = vals["depthwise_kernel"] = sw[0]
          vals["bias"] = sw[1] if len(sw) > 1 else np.zeros(lay.get_weights()[1].shape, np.float32)
          set_named(lay, vals)
        elif lay.get_weights():
          lay.set_weights(m.get_layer(lay.name).get_weights())
      y1 = qm.predict(xin, verbose=0)
      events.append({"kind": "model", "op": "convert_to_folded", "same": int(np.array_equal(y0, y1)), "branch": int(branch), "sep": int(sep),
                     "classes": [l.__class__.__name__ for l in qm.layers]})
    except Exception as e:
      errors.append({"k": "exc", "op": "convert_to_folded", "exc": repr(e)[:300]})


def main():
  _, prefix, tier, seed, shard, nshards = sys.argv[1:7]
  seed, shard, nshards = int(seed), int(shard), int(nshards)
  rnd = random.Random(seed * 1000 + shard)
  events, errors = [], []
  n = 16 if tier == "quick" else 150
  for j in range(n):
    try:
      ev = layer_case(rnd, center_only=(False if j % 8 == 7 else None))
      events.append(ev)
    except Exception as e:
      errors.append({"k": "exc", "op": "layer", "center": j % 8 != 7, "exc": repr(e)[:300]})
  model_cases(rnd, events, errors, 2 if tier == "quick" else 12)
  for ev in events:
    for k, v in (("dw", 0), ("g", {"sh": 1, "sw": 1, "dh": 1, "dw": 1, "pad": "valid"}), ("usebias", 0), ("hasq", 0),
                 ("x", [0]), ("k", [0]), ("b", [0]), ("mean", [0]), ("gam", [0]), ("beta", [0]), ("J", [0]), ("fk", [0]),
                 ("fb", [0]), ("kin", [0]), ("qk", [0]), ("qb", [0]), ("EQ", 0), ("y", [0]), ("stock", 1), ("same", 1),
                 ("op", "")):
      ev.setdefault(k, v)
  write_ndjson("%s.%d.ndjson" % (prefix, shard), events)
  json.dump(errors, open("%s.%d.err.json" % (prefix, shard), "w"))
  print(json.dumps({"events": len(events), "errors": len(errors)}))


if __name__ == "__main__":
  main()
