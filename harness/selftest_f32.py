"""Self-test: F32.tla against NumPy float32 on adversarial operands. Exit 0 ok, 2 machinery failure."""
import os, random, sys
import numpy as np
sys.path.insert(0, os.path.dirname(os.path.abspath(__file__)))
from common import dy, run_tlc, write_ndjson, scratch_root, Machinery

def rnd32(r):
  k = r.random()
  if k < 0.3:
    return float(np.float32(r.uniform(-4, 4)))
  if k < 0.6:
    return float(np.float32(r.choice([-1, 1]) * r.getrandbits(24) * 2.0 ** r.randint(-40, 20)))
  if k < 0.8:
    return float(np.float32(r.choice([-1, 1]) * 2.0 ** r.randint(-30, 30)))
  return float(np.float32(r.choice([-1, 1]) * (r.getrandbits(5)) * 2.0 ** r.randint(-10, 10)))

def main(n=6000, seed=1):
  r = random.Random(seed)
  evs = []
  f = np.float32
  for _ in range(n):
    a, b = rnd32(r), rnd32(r)
    k = r.random()
    if k < 0.25:
      # near-cancellation / half-ulp ties
      b = float(f(-a) + f(a) * f(2.0 ** -r.randint(1, 30)))
    c = float(f(r.choice([0, .25, .5, .75, 1, r.random()])))
    op = r.choice(["add", "mul", "ste", "stef", "mix", "less"])
    if op == "add": res = f(a) + f(b)
    elif op == "mul": res = f(a) * f(b)
    elif op == "ste": res = f(a) + (f(-a) + f(b))
    elif op == "stef": res = f(a) + f(c) * (f(-a) + f(b))
    elif op == "mix": res = (f(1) - f(c)) * f(a) + f(c) * f(b)
    else: res = f(1.0 if a < b else 0.0)
    res = float(res)
    if not np.isfinite(res) or (res != 0 and abs(res) < 1.2e-38) :
      continue
    if any(v != 0 and abs(v) < 1e-30 for v in (a, b)):
      continue
    evs.append({"op": op, "a": dy(a), "b": dy(b), "c": dy(c), "r": dy(res)})
  path = os.path.join(scratch_root(), "f32.ndjson")
  write_ndjson(path, evs)
  res = run_tlc("Trace_F32", "Trace_F32", workers=1, env={"TRACE_FILE": path})
  rej = [p for p in res.prints() if p and p[0] == "REJECT"]
  if res.distinct != len(evs) + 1:
    raise Machinery("trace not consumed: %d states for %d events\n%s" % (res.distinct, len(evs), res.out[-2000:]))
  if rej:
    for p in rej[:5]:
      print("F32 model mismatch:", p, evs[p[1] - 1])
    raise Machinery("F32.tla disagrees with NumPy on %d of %d cases" % (len(rej), len(evs)))
  print("F32 selftest ok: %d operations, %.1fs" % (len(evs), res.wall))

if __name__ == "__main__":
  try:
    main(int(sys.argv[1]) if len(sys.argv) > 1 else 6000)
  except Machinery as e:
    print("MACHINERY FAILURE:", e)
    sys.exit(2)
