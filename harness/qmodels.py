"""Small real quantized models, one per (layer class, quantizer variant), shared by the C13 / C14 drivers."""
import numpy as np
from qk import tf, Q, qkeras
from qkeras import (QDense, QConv1D, QConv2D, QDepthwiseConv2D, QSeparableConv1D, QSeparableConv2D, QActivation,
                    QAdaptiveActivation, QBatchNormalization, QAveragePooling2D, QGlobalAveragePooling2D, QSimpleRNN,
                    QLSTM, QGRU, QBidirectional, QConv2DBatchnorm, QDepthwiseConv2DBatchnorm)
from qkeras.qmac import QScaleShift

L = tf.keras.layers


def wq(variant, rank):
  """Weight quantizer (as a string, the way users write it) for a kernel of the given rank."""
  if variant == "fixed":
    return "quantized_bits(4,0,1,alpha=1.0)"
  if variant == "auto_axis":
    return "quantized_bits(4,0,1,alpha='auto',scale_axis=0)"
  if variant == "auto_po2_bounds":
    return "quantized_bits(5,0,1,alpha='auto_po2',min_po2_exponent=-1,max_po2_exponent=0)"
  if variant == "auto_po2_unsigned":
    return "quantized_bits(5,1,1,keep_negative=False,alpha='auto_po2')"
  if variant == "po2":
    return "quantized_po2(4,max_value=2)"
  if variant == "ternary_auto":
    return "ternary(alpha='auto')"
  if variant == "binary_axis":
    return "binary(alpha='auto_po2',scale_axis=0)"
  raise ValueError(variant)


BQ = "quantized_bits(6,2,1,alpha=1.0)"
AQ = "quantized_relu(6,2)"


def build(cls, variant):
  """Returns (model, probe input)."""
  # variant "explicit_none": optional quantizers are passed as an explicit None (not the same as leaving a default:
  # QBatchNormalization's defaults are power-of-two quantizers)
  none = variant == "explicit_none"
  if none:
    variant = "fixed"
  BQ_ = None if none else BQ
  if cls == "QDense":
    i = L.Input((5,))
    y = QDense(4, kernel_quantizer=wq(variant, 2), bias_quantizer=BQ_, activation=AQ)(i)
  elif cls == "QConv1D":
    i = L.Input((6, 2))
    y = QConv1D(3, 3, kernel_quantizer=wq(variant, 3), bias_quantizer=BQ_)(i)
  elif cls == "QConv2D":
    i = L.Input((5, 5, 2))
    y = QConv2D(3, (2, 2), kernel_quantizer=wq(variant, 4), bias_quantizer=BQ_, activation=AQ)(i)
  elif cls == "QDepthwiseConv2D":
    i = L.Input((5, 5, 2))
    # (two variants: no bias, but a bias quantizer is configured all the same - it has to survive the round trips)
    y = QDepthwiseConv2D((2, 2), depthwise_quantizer=wq(variant, 4), bias_quantizer=BQ_,
                         use_bias=variant not in ("po2", "ternary_auto"))(i)
  elif cls == "QSeparableConv1D":
    i = L.Input((6, 2))
    y = QSeparableConv1D(3, 3, depthwise_quantizer=wq(variant, 4), pointwise_quantizer=wq("fixed", 4), bias_quantizer=BQ_)(i)
  elif cls == "QSeparableConv2D":
    i = L.Input((5, 5, 2))
    y = QSeparableConv2D(3, (2, 2), depthwise_quantizer=wq(variant, 4), pointwise_quantizer=wq("po2", 4), bias_quantizer=BQ_)(i)
  elif cls == "QActivation":
    i = L.Input((5,))
    act = {"fixed": "quantized_bits(4,1,1)", "auto_axis": "quantized_relu(4,1,negative_slope=0.25)",
           "auto_po2_bounds": "quantized_relu(4,1,is_quantized_clip=False,relu_upper_bound=1.5)", "po2": "quantized_relu_po2(4,2)",
           "ternary_auto": "ternary(alpha=2.0,threshold=0.5)", "binary_axis": "quantized_tanh(4,symmetric=1)"}[variant]
    from qkeras.quantizers import get_quantizer
    if none:                        # (no optional quantizer to leave out here: used for one more quantizer class)
      act = "quantized_hswish(6,2,1,relu_shift=2)"
    elif variant == "fixed":
      act = "quantized_linear(4,1,1)"
    if none or variant in ("fixed", "auto_axis", "po2", "binary_axis"):
      # most variants hand over the quantizer OBJECT (non-default arguments) instead of its string
      act = get_quantizer(act)
    y = QActivation(act)(i)
  elif cls == "QAdaptiveActivation":
    i = L.Input((5,))
    y = QAdaptiveActivation("quantized_relu" if variant in ("fixed", "po2", "auto_axis") else "quantized_bits", 5,
                            ema_decay=0.5, quantization_delay=1,
                            relu_upper_bound=0.75 if variant == "auto_axis" else None,
                            relu_neg_slope=0.25 if variant == "po2" else 0.0)(i)       # (a decay under which a few training calls move the statistics)
  elif cls == "QBatchNormalization":
    i = L.Input((5,))
    if none:
      y = QBatchNormalization(gamma_quantizer=None, beta_quantizer=None, mean_quantizer=None, variance_quantizer=None)(i)
    else:
      y = QBatchNormalization(gamma_quantizer=wq("po2", 1) if variant == "po2" else "quantized_bits(8,3,1)")(i)
  elif cls == "QAveragePooling2D":
    i = L.Input((4, 4, 2))
    y = QAveragePooling2D((2, 2), average_quantizer="quantized_bits(6,0,1)", activation="quantized_bits(8,3,1)")(i)
  elif cls == "QGlobalAveragePooling2D":
    i = L.Input((4, 4, 2))
    y = QGlobalAveragePooling2D(average_quantizer="quantized_bits(6,0,1)")(i)
  elif cls in ("QSimpleRNN", "QLSTM", "QGRU"):
    i = L.Input((4, 3))
    kw = dict(kernel_quantizer=wq(variant, 2), recurrent_quantizer=wq("fixed", 2), bias_quantizer=BQ_,
              use_bias=variant != "ternary_auto")
    if cls == "QGRU":
      kw["reset_after"] = False
    y = getattr(qkeras, cls)(3, **kw)(i)
  elif cls == "QBidirectional":
    i = L.Input((4, 3))
    # (two variants: no bias, but the bias quantizer is configured all the same)
    y = QBidirectional(QLSTM(2, kernel_quantizer=wq(variant, 2), recurrent_quantizer=wq("fixed", 2), bias_quantizer=BQ_,
                             use_bias=variant not in ("po2", "binary_axis")))(i)
  elif cls == "QConv2DBatchnorm":
    i = L.Input((5, 5, 2))
    # (without a bias of its own the folded bias (0 - mean) * gamma / sqrt(var + eps) + beta is still quantized)
    y = QConv2DBatchnorm(3, (2, 2), kernel_quantizer=wq(variant, 4), bias_quantizer=BQ_, use_bias=variant not in ("po2", "auto_axis"))(i)
  elif cls == "QDepthwiseConv2DBatchnorm":
    i = L.Input((5, 5, 2))
    y = QDepthwiseConv2DBatchnorm((2, 2), depthwise_quantizer=wq(variant, 4), bias_quantizer=BQ_,
                                  use_bias=variant not in ("po2", "auto_axis"))(i)
  elif cls == "QScaleShift":
    i = L.Input((5,))
    y = QScaleShift(weight_quantizer=wq(variant if variant in ("fixed", "po2") else "fixed", 1), bias_quantizer=BQ_)(i)
  else:
    raise ValueError(cls)
  m = tf.keras.Model(i, y)
  rs = np.random.RandomState(sum(map(ord, cls + variant + ("none" if none else ""))))
  # discriminating weights: per-row / per-column magnitude ramps so that scale axes and exponent bounds matter
  ws = []
  for w in m.get_weights():
    a = rs.uniform(-1, 1, w.shape)
    if a.ndim >= 2:
      ramp0 = np.linspace(0.05, 1.5, a.shape[0]).reshape((-1,) + (1,) * (a.ndim - 1))
      ramp1 = np.linspace(0.3, 2.0, a.shape[-1]).reshape((1,) * (a.ndim - 1) + (-1,))
      a = a * ramp0 * ramp1
    if np.issubdtype(w.dtype, np.integer):
      ws.append(w)
    else:
      ws.append(a.astype(w.dtype) if "moving_variance" not in "" else a)
  try:
    m.set_weights([np.abs(w) + 0.1 if k == "var" else w for k, w in zip(variance_marks(m), ws)])
  except Exception:
    m.set_weights(ws)
  x = (rs.randint(-8, 8, (3,) + tuple(i.shape[1:])) / 4.0).astype(np.float32)
  return m, x


def variance_marks(m):
  return ["var" if "variance" in v.name else "" for v in m.weights]


def quantizer_configs(m):
  import json
  out = []
  for lay in m.layers:
    qs = []
    if hasattr(lay, "get_quantizers"):
      qs = list(lay.get_quantizers())
    inner = getattr(lay, "forward_layer", None)
    if inner is not None:
      qs += list(inner.get_quantizers()) + list(lay.backward_layer.get_quantizers())
    for q in qs:
      if q is None:
        out.append("None")
      elif hasattr(q, "get_config"):
        cfg = {k: (v.tolist() if hasattr(v, "tolist") else v) for k, v in q.get_config().items()}
        out.append(q.__class__.__name__ + json.dumps(cfg, sort_keys=True, default=str))
      else:
        out.append(str(q))
    act = getattr(lay, "activation", None)
    if act is not None and hasattr(act, "get_config") and not hasattr(act, "__name__"):
      out.append("act:" + act.__class__.__name__ + json.dumps(act.get_config(), sort_keys=True, default=str))
    qa = getattr(lay, "quantizer", None)
    if qa is not None and hasattr(qa, "get_config"):
      out.append("q:" + qa.__class__.__name__ + json.dumps(qa.get_config(), sort_keys=True, default=str))
  return out
