"""Driver for C12: real utils.model_quantize on generated (model, dictionary) pairs of the ModelGraph alphabet.

usage: drive_mquant.py <unused> <out_prefix> <tier> <seed> <shard> <nshards>
"""
import copy
import json
import random
import sys
import numpy as np
from qk import tf, Q, qkeras
from qkeras import utils as qutils
from common import write_ndjson

L = tf.keras.layers
S = {"qA": "quantized_bits(4,0,1)", "bA": "quantized_bits(6,2,1)", "qB": "ternary()", "aB": "quantized_relu(5,1)",
     "aS": "quantized_relu(3,1)", "aDr": "quantized_relu(6,2)", "aDl": "quantized_relu(6,2,negative_slope=0.125)",
     "qN": "quantized_bits(8,3,1)"}
ABITS = 4
WEIGHT = ("Dense", "Conv2D", "DepthwiseConv2D")
KEYS = ["QDense", "QConv2D", "QDepthwiseConv2D", "QActivation", "QBatchNormalization", "n1", "n2", "n3"]


def entry(e, kind):
  kq = "depthwise_quantizer" if kind == "DepthwiseConv2D" else "kernel_quantizer"
  if e == "empty":
    return {}
  if e == "A":
    return {kq: S["qA"], "bias_quantizer": S["bA"]}
  if e == "B":
    return {kq: S["qB"], "activation_quantizer": S["aB"]}
  if e == "S":
    return S["aS"]
  if e == "D":
    return {"relu": S["aDr"], "leakyrelu": S["aDl"]}
  if e == "Dr":
    return {"relu": S["aDr"]}
  if e == "Dl":
    return {"leakyrelu": S["aDl"]}
  if e == "N":
    return {k: S["qN"] for k in ("gamma_quantizer", "beta_quantizer", "mean_quantizer", "variance_quantizer")}
  raise ValueError(e)


def alphabet():
  a = []
  for k in WEIGHT:
    for b in (0, 1):
      for act in ("linear", "relu"):
        a.append({"kind": k, "bias": b, "act": act})
  for act in ("relu", "tanh", "softmax"):
    a.append({"kind": "Activation", "bias": 0, "act": act})
  for k in ("ReLU", "LeakyReLU", "BatchNormalization"):
    a.append({"kind": k, "bias": 0, "act": "linear"})
  return a


def name_entries(kind):
  if kind in WEIGHT:
    return ["absent", "empty", "A", "B"]
  if kind == "BatchNormalization":
    return ["absent", "N", "empty"]
  return ["absent", "S", "D", "Dr", "Dl"]


def build(model):
  i = L.Input((6, 6, 2))
  x = i
  flat = False
  for l in model:
    k = l["kind"]
    if k == "Dense":
      if not flat:
        x = L.Flatten()(x)
        flat = True
      x = L.Dense(3, use_bias=bool(l["bias"]), activation=l["act"], name=l["name"])(x)
    elif flat and k in ("Conv2D", "DepthwiseConv2D"):
      return None
    elif k == "Conv2D":
      x = L.Conv2D(3, (2, 2), use_bias=bool(l["bias"]), activation=l["act"], name=l["name"])(x)
    elif k == "DepthwiseConv2D":
      x = L.DepthwiseConv2D((2, 2), use_bias=bool(l["bias"]), activation=l["act"], name=l["name"])(x)
    elif k == "Activation":
      x = L.Activation(l["act"], name=l["name"])(x)
    elif k == "ReLU":
      x = L.ReLU(max_value=6.0, name=l["name"])(x)          # non-default parameters: they have to survive
    elif k == "LeakyReLU":
      x = L.LeakyReLU(alpha=0.125, name=l["name"])(x)
    elif k == "BatchNormalization":
      plain = sum(map(ord, l["name"])) % 2 == 0 and len(model) == 3
      x = L.BatchNormalization(name=l["name"], center=not plain, scale=not plain)(x)
  return tf.keras.Model(i, x)


_norm_cache = {}


def norm(cls, role, s):
  """str() of the quantizer that the Q class builds from the configured string for that role."""
  key = (cls, role, s)
  if key not in _norm_cache:
    if cls == "QDense":
      lay = qkeras.QDense(2, **{role: s})
    elif cls == "QConv2D":
      lay = qkeras.QConv2D(2, (1, 1), **{role: s})
    elif cls == "QDepthwiseConv2D":
      lay = qkeras.QDepthwiseConv2D((1, 1), **{role: s})
    elif cls == "QBatchNormalization":
      lay = qkeras.QBatchNormalization(**{role: s})
    else:
      lay = None
    if lay is None:
      _norm_cache[key] = str(Q.get_quantizer(s))
    else:
      _norm_cache[key] = str(getattr(lay, role + "_internal"))
  return _norm_cache[key]


def sym(cls, role, q, names):
  if q is None:
    return "none"
  s = str(q)
  for n in names:
    if norm(cls, role, S[n]) == s:
      return n
  return "other:" + s[:40]


def act_sym(lay):
  a = getattr(lay, "activation", None)
  if lay.__class__.__name__ in ("QActivation",):
    s = str(lay.quantizer)
    for n in ("aS", "aDr", "aDl", "aB"):
      if str(Q.get_quantizer(S[n])) == s:
        return n
    for act in ("relu", "tanh", "sigmoid"):
      if str(Q.get_quantizer("quantized_%s(%d)" % (act, ABITS))) == s:
        return "bits:" + act
    return "other:" + s[:40]
  if a is None:
    return "keep:linear"
  if hasattr(a, "__name__"):
    return "keep:" + a.__name__
  s = str(a)
  for n in ("aB", "aS", "aDr", "aDl"):
    if str(Q.get_quantizer(S[n])) == s:
      return n
  for act in ("relu", "tanh", "sigmoid"):
    if str(Q.get_quantizer("quantized_%s(%d)" % (act, ABITS))) == s:
      return "bits:" + act
  return "other:" + s[:40]


def project(qm, model):
  res = []
  for l in model:
    lay = qm.get_layer(l["name"])
    cls = lay.__class__.__name__
    r = {"cls": cls, "kq": "none", "bq": "none", "act": "keep:" + l["act"]}
    if cls in ("QDense", "QConv2D"):
      r["kq"] = sym(cls, "kernel_quantizer", lay.kernel_quantizer_internal, ("qA", "qB"))
      r["bq"] = sym(cls, "bias_quantizer", lay.bias_quantizer_internal, ("bA",))
      r["act"] = act_sym(lay)
    elif cls == "QDepthwiseConv2D":
      r["kq"] = sym(cls, "depthwise_quantizer", lay.depthwise_quantizer_internal, ("qA", "qB"))
      r["bq"] = sym(cls, "bias_quantizer", lay.bias_quantizer_internal, ("bA",))
      r["act"] = act_sym(lay)
    elif cls == "QActivation":
      r["act"] = act_sym(lay)
    elif cls == "QBatchNormalization":
      roles = ("gamma_quantizer", "beta_quantizer", "mean_quantizer", "variance_quantizer")
      syms = {sym(cls, r_, getattr(lay, r_ + "_internal"), ("qN",)) for r_ in roles}
      r["kq"] = syms.pop() if len(syms) == 1 else "other:mixed"
    elif cls in ("Dense", "Conv2D", "DepthwiseConv2D", "Activation"):
      r["act"] = "keep:" + (lay.activation.__name__ if hasattr(lay.activation, "__name__") else str(lay.activation))
    return_cls = cls
    res.append(r)
  return res


QUANT_KEYS = ("quantizer", "activation", "kernel_range", "bias_range", "constraint", "initializer", "regularizer", "name")


def hyper_ok(km, qm):
  """Non-quantization hyper-parameters: a layer that keeps its class keeps its whole configuration; a converted layer
  keeps every configuration entry of the source layer that is not about quantization."""
  for a, b in zip(km.layers, qm.layers):
    ca, cb = a.get_config(), b.get_config()
    if a.__class__.__name__ == b.__class__.__name__:
      if json.dumps(ca, sort_keys=True, default=str) != json.dumps(cb, sort_keys=True, default=str):
        return 0
    elif b.__class__.__name__ != "QActivation":
      for k, v in ca.items():
        if any(w in k for w in QUANT_KEYS) or k not in cb:
          continue
        if json.dumps(v, sort_keys=True, default=str) != json.dumps(cb[k], sort_keys=True, default=str):
          return 0
  return 1


def main():
  _, prefix, tier, seed, shard, nshards = sys.argv[1:7]
  seed, shard, nshards = int(seed), int(shard), int(nshards)
  rnd = random.Random(seed * 1000 + shard)
  alpha = alphabet()
  events, errors = [], []
  n = 30 if tier == "quick" else 400
  tries = 0
  # systematic part: every one-layer model x every (name entry, class entry) pair - the part of TLC's lattice in which
  # precedence between a name entry and a class entry is decided
  qn = {"Dense": "QDense", "Conv2D": "QConv2D", "DepthwiseConv2D": "QDepthwiseConv2D", "Activation": "QActivation",
        "ReLU": "QActivation", "LeakyReLU": "QActivation", "BatchNormalization": "QBatchNormalization"}
  class_entries = {"QDense": ["absent", "empty", "A", "B"], "QConv2D": ["absent", "empty", "A", "B"],
                   "QDepthwiseConv2D": ["absent", "empty", "A", "B"], "QActivation": ["absent", "S", "D", "Dr", "Dl"],
                   "QBatchNormalization": ["absent", "N"]}
  systematic = [(dict(l, name="n1"), ne, ce) for l in alpha for ne in name_entries(l["kind"]) for ce in class_entries[qn[l["kind"]]]]
  systematic = [c for j, c in enumerate(systematic) if j % nshards == shard]
  while (systematic or len(events) < n) and tries < 20 * n + 1000:
    tries += 1
    if systematic:
      l1, ne, ce = systematic.pop()
      model = [l1]
      km = build(model)
      d = {k: "absent" for k in KEYS}
      d["n1"], d[qn[l1["kind"]]] = ne, ce
    else:
      ln = rnd.choice([1, 2, 2, 3, 3])
      model = [dict(rnd.choice(alpha), name="n%d" % (j + 1)) for j in range(ln)]
      km = build(model)
      if km is None:
        continue
      d = {k: "absent" for k in KEYS}
      for k in ("QDense", "QConv2D", "QDepthwiseConv2D"):
        d[k] = rnd.choice(["absent", "absent", "empty", "A", "B"])
      d["QActivation"] = rnd.choice(["absent", "absent", "S", "D", "Dr", "Dl"])
      d["QBatchNormalization"] = rnd.choice(["absent", "absent", "N"])
      for l in model:
        d[l["name"]] = rnd.choice(["absent", "absent"] + name_entries(l["kind"]))
    kind_of = {"QDense": "Dense", "QConv2D": "Conv2D", "QDepthwiseConv2D": "DepthwiseConv2D", "QActivation": "Activation",
               "QBatchNormalization": "BatchNormalization"}
    kind_of.update({l["name"]: l["kind"] for l in model})
    qcfg = {k: entry(e, kind_of[k]) for k, e in d.items() if e != "absent"}
    co = {"my_custom": {"a": [1, 2]}}
    qcfg0, co0 = copy.deepcopy(qcfg), copy.deepcopy(co)
    for lay in km.layers:
      ws = lay.get_weights()
      if ws:
        lay.set_weights([np.random.RandomState(rnd.randint(0, 10 ** 6)).uniform(-1, 1, w.shape).astype(np.float32) for w in ws])
    # histories: some layers are frozen before the conversion (their weights still have to be carried over)
    for lay in km.layers:
      if lay.get_weights() and rnd.random() < 0.3:
        lay.trainable = False
    json0 = km.to_json()
    w0 = [w.copy() for w in km.get_weights()]
    transfer = rnd.random() < 0.7
    ev = {"model": model, "dict": d, "exc": 0, "res": [], "topo": 1, "hyper": 1, "src": 1, "dct": 1, "wts": 1, "transfer": int(transfer)}
    try:
      qm = qutils.model_quantize(km, qcfg, ABITS, custom_objects=co, transfer_weights=transfer)
      ev["res"] = project(qm, model)
      names0 = [l.name for l in km.layers]
      ev["hyper"] = hyper_ok(km, qm)
      ev["topo"] = int(names0 == [l.name for l in qm.layers] and
                       [tuple(l.output_shape) for l in km.layers] == [tuple(l.output_shape) for l in qm.layers])
      if transfer:
        ev["wts"] = int(all(np.array_equal(a, b) for l0, l1 in zip(km.layers, qm.layers)
                            for a, b in zip(l0.get_weights(), l1.get_weights())) and
                        all(len(l0.get_weights()) == len(l1.get_weights()) for l0, l1 in zip(km.layers, qm.layers)))
    except Exception as e:
      ev["exc"] = 1
      ev["exc_text"] = repr(e)[:200]
    ev["src"] = int(km.to_json() == json0 and all(np.array_equal(a, b) for a, b in zip(w0, km.get_weights())))
    ev["dct"] = int(qcfg == qcfg0 and co == co0)
    events.append(ev)
  write_ndjson("%s.%d.ndjson" % (prefix, shard), events)
  json.dump(errors, open("%s.%d.err.json" % (prefix, shard), "w"))
  print(json.dumps({"events": len(events), "errors": len(errors)}))


if __name__ == "__main__":
  main()
