"""Driver for C20, generic instances: reference models mixing conv / separable / recurrent / dense / activation layers,
raw limit dictionaries (short lists completed from "default", explicit quantizer lists, regex pattern keys) and a stub
tuner that answers every Choice at random (seeded) and records it.

usage: drive_autoqg.py <unused> <out_prefix> <tier> <seed> <shard> <nshards>
"""
import json
import random
import re
import sys
import numpy as np
from qk import tf, Q, qkeras
from qkeras.autoqkeras.autoqkeras_internal import AutoQKHyperModel
from qkeras.autoqkeras.forgiving_metrics.forgiving_bits import ForgivingFactorBits
from common import write_ndjson

L = tf.keras.layers
REGISTERED = ["Dense", "Conv1D", "Conv2D", "DepthwiseConv2D", "SimpleRNN", "LSTM", "GRU", "Bidirectional", "Conv2DTranspose",
              "SeparableConv1D", "SeparableConv2D"]
SEQUENCE = ["SimpleRNN", "LSTM", "GRU", "Bidirectional"]
TABLE = {
    "kernel": {"binary": 1, "ternary": 2, "quantized_bits(4,0,1)": 4, "quantized_bits(8,0,1)": 8},
    "bias": {"quantized_bits(4,0,1)": 4, "quantized_bits(8,3,1)": 8},
    "activation": {"quantized_relu(2,1)": 2, "quantized_relu(3,1)": 3, "quantized_relu(4,2)": 4, "quantized_relu(8,4)": 8},
    "recurrent_activation": {"quantized_sigmoid(3)": 3, "quantized_sigmoid(4)": 4, "quantized_sigmoid(8)": 8},
    "linear": {"quantized_bits(8,3,1)": 8},
}
ROLE_SUFFIXES = ["pointwise_kernel", "recurrent_kernel", "recurrent_activation", "kernel", "bias", "activation", "linear"]


def inst_mixed(variant=0):
  i = L.Input((4, 4, 2), name="input")
  x = L.Conv2D(3, (2, 2), padding="same", activation="relu", name="bias_conv")(i)
  x = L.SeparableConv2D(3, (2, 2), padding="same", activation="relu", name="sep")(x)
  x = L.Activation("relu", name="act_kernel")(x)
  x = L.Reshape((16, 3), name="rs")(x)
  x = L.LSTM(3, name="lstm")(x)
  x = L.Dense(4, activation="relu", name="mid_dense")(x)
  x = L.Dense(3, activation="softmax", name="out_dense")(x)
  limit = {"Conv2D": [4], "SeparableConv2D": [["binary", "ternary"], 8], "Activation": [3], "LSTM": [4, 8],
           "^mid": [2, 4, 4], "default": [8, 8, 2, 4] if variant == 0 else [8, 4, 8, 3]}
  return tf.keras.Model(i, x), limit


def inst_plain(variant=0):
  i = L.Input((6, 3), name="input")
  x = L.Conv1D(3, 2, padding="same", activation="relu", name="c1")(i)
  x = L.SimpleRNN(3, return_sequences=True, name="rnn")(x)
  x = L.GRU(3, reset_after=False, name="gru")(x)
  x = L.Dense(4, use_bias=False, name="d_a")(x)
  x = L.Activation("relu", name="a1")(x)
  x = L.Dense(4, name="d_b")(x)
  x = L.Dense(4, activation="sigmoid", name="s_gate")(x)          # an inline activation other than relu / softmax / linear
  x = L.Dense(2, activation="softmax", name="d_out")(x)
  # "gate" is an un-anchored pattern: patterns are matched at the START of a layer name (re.match), so it governs no
  # layer here although it occurs inside "s_gate"
  limit = {"gate": [8, 8, 8], "Conv1D": [8, 4, 3], "SimpleRNN": [2], "GRU": [4, 4, 4, 3], "^d_[ab]$": [4, 4, 8], "^s_gate$": [4, 8, 3],
           "Activation": [4], "default": 4}
  # a scalar default cannot complete a sequence-layer list (the code asserts a 4-entry default): give the full list there
  limit["SimpleRNN"] = [2, 8, 4, 3]
  return tf.keras.Model(i, x), limit


INSTANCES = {"mixed": inst_mixed, "plain": inst_plain}


def layer_roles(lay):
  k = lay.__class__.__name__
  act = getattr(getattr(lay, "activation", None), "__name__", None)
  inline = [] if act in (None, "linear", "softmax") else ["activation"]
  if k in ("Dense", "Conv1D", "Conv2D", "DepthwiseConv2D"):
    return ["kernel"] + (["bias"] if lay.use_bias else []) + inline
  if k in ("SeparableConv1D", "SeparableConv2D"):
    return ["kernel", "pointwise_kernel"] + (["bias"] if lay.use_bias else []) + inline
  if k == "SimpleRNN":
    return ["kernel", "recurrent_kernel"] + (["bias"] if lay.use_bias else []) + inline
  if k in ("LSTM", "GRU"):
    return ["kernel", "recurrent_kernel", "recurrent_activation"] + (["bias"] if lay.use_bias else []) + inline
  if k == "Activation":
    return [] if act == "softmax" else ["activation"]
  return []


def key_of(limit, lay):
  for pattern in limit:                       # dictionary order, like the search
    if pattern != "default" and re.match(pattern, lay.name):
      return pattern, True
  k = lay.__class__.__name__
  return (k, False) if k in limit else ("none", False)


def entries(given):
  return [{"t": "l", "n": 0, "l": list(e)} if isinstance(e, list) else {"t": "n", "n": int(e), "l": []} for e in given]


class StubHP:
  def __init__(self, rnd, pattern_keys):
    self.rnd, self.calls, self.pattern_keys = rnd, [], pattern_keys

  def _slot(self, name):
    base = name[:-len("_quantizer")]
    for role in ROLE_SUFFIXES:
      if base.endswith("_" + role):
        return base[:-len(role) - 1], role
    raise ValueError(name)

  def Choice(self, name, values, default=None, **kw):
    if name.startswith("network_filters"):
      return 1.0
    slot, role = self._slot(name)
    chosen = self.rnd.choice(list(values))
    self.calls.append({"slot": slot, "role": role, "values": [str(v) for v in values], "chosen": str(chosen)})
    return chosen

  def Fixed(self, name, value, **kw):
    slot, role = self._slot(name)
    self.calls.append({"slot": slot, "role": role, "values": [str(value)], "chosen": str(value)})
    return value


_norm = {}
CTOR = {"QDense": lambda **k: qkeras.QDense(2, **k), "QConv2D": lambda **k: qkeras.QConv2D(2, (1, 1), **k),
        "QConv1D": lambda **k: qkeras.QConv1D(2, 1, **k), "QSeparableConv2D": lambda **k: qkeras.QSeparableConv2D(2, (1, 1), **k),
        "QSimpleRNN": lambda **k: qkeras.QSimpleRNN(2, **k), "QLSTM": lambda **k: qkeras.QLSTM(2, **k), "QGRU": lambda **k: qkeras.QGRU(2, **k)}
ATTR = {"kernel": "kernel_quantizer", "bias": "bias_quantizer", "pointwise_kernel": "pointwise_quantizer",
        "recurrent_kernel": "recurrent_quantizer"}


def name_of(cls, role, q):
  """table string whose quantizer (as this class builds it for this role) prints like q."""
  if q is None:
    return "none"
  if hasattr(q, "__name__"):
    return "keep"
  s = str(q)
  field = "kernel" if role in ("kernel", "pointwise_kernel", "recurrent_kernel") else role
  cands = list(TABLE[field]) if field in TABLE else []
  if role in ("activation", "recurrent_activation"):
    cands = list(TABLE["activation"]) + list(TABLE["recurrent_activation"]) + list(TABLE["kernel"]) + list(TABLE["bias"])
  else:
    cands = cands + [c for f in TABLE for c in TABLE[f] if c not in cands]
  for c in cands:
    key = (cls, role, c)
    if key not in _norm:
      try:
        if role in ATTR and cls in CTOR:
          attr = ATTR[role]
          if cls == "QSeparableConv2D" and role == "kernel":
            attr = "depthwise_quantizer"
          _norm[key] = str(getattr(CTOR[cls](**{attr: c}), attr + "_internal"))
        else:
          _norm[key] = str(Q.get_quantizer(c))
      except Exception:
        _norm[key] = "?"
    if _norm[key] == s:
      return c
  return "other:" + s[:50]


def project(qm, names):
  res = []
  for n in names:
    lay = qm.get_layer(n)
    cls = lay.__class__.__name__
    q = {"kernel": "none", "bias": "none", "pointwise_kernel": "none", "recurrent_kernel": "none", "recurrent_activation": "keep",
         "activation": "keep"}
    if cls in ("QDense", "QConv2D", "QConv1D"):
      q["kernel"] = name_of(cls, "kernel", lay.kernel_quantizer_internal)
      q["bias"] = name_of(cls, "bias", lay.bias_quantizer_internal)
      q["activation"] = name_of(cls, "activation", lay.activation) if lay.activation is not None else "keep"
    elif cls == "QSeparableConv2D":
      q["kernel"] = name_of(cls, "kernel", lay.depthwise_quantizer_internal)
      q["pointwise_kernel"] = name_of(cls, "pointwise_kernel", lay.pointwise_quantizer_internal)
      q["bias"] = name_of(cls, "bias", lay.bias_quantizer_internal)
      q["activation"] = name_of(cls, "activation", lay.activation) if lay.activation is not None else "keep"
    elif cls in ("QSimpleRNN", "QLSTM", "QGRU"):
      q["kernel"] = name_of(cls, "kernel", lay.kernel_quantizer_internal)
      q["recurrent_kernel"] = name_of(cls, "recurrent_kernel", lay.recurrent_quantizer_internal)
      q["bias"] = name_of(cls, "bias", lay.bias_quantizer_internal)
      q["activation"] = name_of(cls, "activation", lay.cell.activation)
      if cls != "QSimpleRNN":
        q["recurrent_activation"] = name_of(cls, "recurrent_activation", lay.cell.recurrent_activation)
    elif cls == "QActivation":
      q["activation"] = name_of(cls, "activation", lay.quantizer)
    res.append({"name": n, "cls": cls, "q": q})
  return res


def main():
  _, prefix, tier, seed, shard, nshards = sys.argv[1:7]
  seed, shard, nshards = int(seed), int(shard), int(nshards)
  events, errors = [], []
  ntrials = 3 if tier == "quick" else 40
  target = ForgivingFactorBits(8, 8, 2, config={"default": ["parameters", "activations"]})
  table_ev = {f: [[k, v] for k, v in TABLE[f].items()] for f in TABLE}
  for iname, mk in sorted(INSTANCES.items()):
    for t in range(ntrials):
      rnd = random.Random("%d/%d/%s/%d" % (seed, shard, iname, t))
      try:
        m, limit = mk((t + shard) % 2)
        raw = json.loads(json.dumps(limit))
        names = [l.name for l in m.layers if layer_roles(l) or l.__class__.__name__ in ("Dense", "Activation")]
        idx = None if t % 3 else sorted(rnd.sample(range(1, len(m.layers)), rnd.randint(0, len(m.layers) - 1)))
        hm = AutoQKHyperModel(m, metrics=["acc"], target=target, limit=limit, layer_indexes=idx, quantization_config=TABLE,
                              tune_filters="none", tune_filters_exceptions="")
        hp = StubHP(rnd, [k for k in raw if k not in REGISTERED and k not in ("default", "Activation")])
        hm.groups = {}
        qm, _ = hm.quantize_model(hp)
        d = raw.get("default", 8)
        default = [int(v) for v in d] if isinstance(d, list) else [int(d)] * 3
        layers = []
        for pos, lay in enumerate(m.layers):
          if lay.name not in names:
            continue
          key, is_pat = key_of(raw, lay)
          cls = lay.__class__.__name__
          layers.append({"name": lay.name, "kind": cls, "seq": int(cls in SEQUENCE), "registered": int(key in REGISTERED and not is_pat),
                         "key": key, "slot": key if is_pat else lay.name, "roles": layer_roles(lay),
                         "selected": int(idx is None or pos in idx), "given": entries(raw[key]) if key != "none" else []})
        by_slot = {l["slot"]: l for l in layers}
        for c in hp.calls:
          l = by_slot.get(c["slot"])
          c.update({"seq": l["seq"], "registered": l["registered"], "given": l["given"]} if l else {"seq": 0, "registered": 0, "given": []})
          c["known_slot"] = int(l is not None)
        arch = int(len(qm.layers) == len(m.layers) and all(
            a.name == b.name and tuple(a.output.shape) == tuple(b.output.shape) and
            [tuple(w.shape) for w in a.get_weights()] == [tuple(w.shape) for w in b.get_weights()]
            for a, b in zip(m.layers, qm.layers)))
        events.append({"kind": "gtrial", "inst": iname, "table": table_ev, "default": default, "layers": layers, "calls": hp.calls,
                       "res": project(qm, names), "arch": arch})
      except Exception as e:
        errors.append({"k": "exc", "inst": iname, "trial": t, "exc": repr(e)[:400]})
  write_ndjson("%s.%d.ndjson" % (prefix, shard), events)
  json.dump(errors, open("%s.%d.err.json" % (prefix, shard), "w"))
  print(json.dumps({"events": len(events), "errors": len(errors)}))


if __name__ == "__main__":
  main()
