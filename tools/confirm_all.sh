#!/bin/bash
# confirm every seed under /tmp/seed that has no confirm.json yet, 5 at a time
ls -d /tmp/seed/C??_? 2>/dev/null | while read d; do
  n=$(basename $d); [ -f /tmp/confirm/$n/confirm.json ] || echo $d
done | xargs -P 5 -I{} sh -c '/verif/tools/confirm_seed.sh {} /tmp/confirm/$(basename {}) > /tmp/confirm/$(basename {}).out 2>&1'
