"""Regenerates the seeded-change table of DESIGN.md (between the SEEDTABLE markers) from /verif/seeded/*/meta.json."""
import glob, json, os, re
rows = ["| seed | property | change | needs to manifest | checks run (quick) -> exit status, first reported clause |", "|---|---|---|---|---|"]
for f in sorted(glob.glob("/verif/seeded/*/meta.json")):
  m = json.load(open(f))
  runs = []
  for pid, r in sorted(m.get("checks_run", {}).items()):
    cl = ""
    ids = r.get("first_identities") or []
    if ids:
      mm = re.search(r'"clause": "([^"]+)"', ids[0])
      cl = " " + mm.group(1) if mm else ""
    runs.append("%s -> %s%s" % (pid, r.get("rc"), cl))
  rows.append("| %s | %s | %s | %s | %s |" % (m["id"], m["property"], m["what"].replace("|", "\\|"),
                                            m["needs_to_manifest"].replace("|", "\\|"), "; ".join(runs) or "not run"))
p = "/verif/DESIGN.md"
s = open(p).read()
tab = "<!-- SEEDTABLE BEGIN -->\n" + "\n".join(rows) + "\n<!-- SEEDTABLE END -->"
if "<!-- SEEDTABLE BEGIN -->" in s:
  s = re.sub(r"<!-- SEEDTABLE BEGIN -->.*?<!-- SEEDTABLE END -->", lambda _: tab, s, flags=re.S)
else:
  s = s.replace("SEEDTABLE", tab, 1)
open(p, "w").write(s)
print(len(rows) - 2, "seeds")
