"""Regenerates the generated tables of DESIGN.md (between markers): seeded changes (from /verif/seeded/*/meta.json),
repaired defects and known findings (from /verif/known_findings.json)."""
import glob, json, re

def put(s, name, body):
  tab = "<!-- %s BEGIN -->\n%s\n<!-- %s END -->" % (name, body, name)
  return re.sub(r"<!-- %s BEGIN -->.*?<!-- %s END -->" % (name, name), lambda _: tab, s, flags=re.S)

esc = lambda t: t.replace("|", "\\|").replace("\n", " ")
rows = ["| seed | property | change | needs to manifest | checks run (quick) -> exit status, first reported clause |", "|---|---|---|---|---|"]
for f in sorted(glob.glob("/verif/seeded/*/meta.json")):
  m = json.load(open(f))
  runs = []
  for pid, r in sorted(m.get("checks_run", {}).items()):
    ids = r.get("first_identities") or []
    mm = re.search(r'"clause": "([^"]+)"', ids[0]) if ids else None
    runs.append("%s -> %s%s" % (pid, r.get("rc"), " " + mm.group(1) if mm else ""))
  rows.append("| %s | %s | %s | %s | %s |" % (m["id"], m["property"], esc(m["what"]), esc(m["needs_to_manifest"]), "; ".join(runs) or "not run"))
kf = json.load(open("/verif/known_findings.json"))
fixed = ["| property | commit | what failed on the unchanged tree |", "|---|---|---|"]
for f in kf["fixed"]:
  pid, commit, rest = f[len("fixed: property="):].split(" ", 2)
  fixed.append("| %s | `%s` | %s |" % (pid, commit, esc(rest)))
finds = ["| id | property | identity (`match`) | what fails |", "|---|---|---|---|"]
for f in kf["findings"]:
  finds.append("| %s | %s | `%s` | %s |" % (f["id"], f["property"], esc(json.dumps(f["match"])), esc(f["what"])))
p = "/verif/DESIGN.md"
s = open(p).read()
s = put(s, "SEEDTABLE", "\n".join(rows))
s = put(s, "FIXED", "\n".join(fixed))
s = put(s, "FINDINGS", "\n".join(finds))
open(p, "w").write(s)
print(len(rows) - 2, "seeds,", len(fixed) - 2, "fixed,", len(finds) - 2, "findings")
