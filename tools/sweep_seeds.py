"""Development aid: run registered checks against every seeded change in /verif/seeded, each in its own scratch
worktree of /repo (VERIF_REPO), evidence/replays redirected to a scratch dir (VERIF_OUT). Updates meta.json.

usage: sweep_seeds.py [--tier quick] [--only C01_1,C02_2] [--props C01,C02] [--jobs 3]
"""
import argparse, json, os, re, shutil, subprocess, sys, tempfile
import concurrent.futures as cf

SEEDED = "/verif/seeded"
sys.path.insert(0, "/verif/harness")
from check import MODULES

# a seed is also run against these related properties (shared code paths)
ALSO = {"C04_2": ["C05"], "C06_2": ["C07"], "C07_1": ["C06"], "C01_1": ["C02"], "C02_1": ["C01"], "C02_2": ["C01"]}


def run_one(seed, pid, tier):
  wt = tempfile.mkdtemp(prefix="sweepwt_")
  out = tempfile.mkdtemp(prefix="sweepout_")
  os.rmdir(wt)
  try:
    subprocess.run(["git", "-C", "/repo", "worktree", "add", "--detach", wt, "HEAD"], check=True, capture_output=True)
    ap = subprocess.run(["git", "-C", wt, "apply", os.path.join(SEEDED, seed, "patch.diff")], capture_output=True, text=True)
    if ap.returncode != 0:        # the repository moved on (a repair touched the same lines): the patch needs a rebase
      return {"rc": -1, "violations_reported": 0, "first_identities": [], "machinery": ["patch does not apply: " + ap.stderr.strip()[:200]]}
    env = dict(os.environ, VERIF_REPO=wt, VERIF_OUT=out)
    p = subprocess.run(["/verif/bin/check", pid, "--tier", tier], capture_output=True, text=True, env=env, cwd="/verif")
    lines = [l for l in p.stdout.splitlines() if l.startswith(("VIOLATION", "  identity", "MACHINERY"))]
    ident = [l.strip()[:300] for l in lines if l.startswith("  identity")][:3]
    return {"rc": p.returncode, "violations_reported": sum(1 for l in lines if l.startswith("VIOLATION")),
            "first_identities": ident, "machinery": [l[:300] for l in lines if l.startswith("MACHINERY")][:1]}
  finally:
    subprocess.run(["git", "-C", "/repo", "worktree", "remove", "--force", wt], capture_output=True)
    shutil.rmtree(out, ignore_errors=True)
    shutil.rmtree(wt, ignore_errors=True)


def main():
  ap = argparse.ArgumentParser()
  ap.add_argument("--tier", default="quick")
  ap.add_argument("--only", default="")
  ap.add_argument("--props", default="")
  ap.add_argument("--jobs", type=int, default=2)
  a = ap.parse_args()
  seeds = sorted(os.listdir(SEEDED))
  if a.only:
    seeds = [s for s in seeds if s in a.only.split(",")]
  jobs = []
  for s in seeds:
    pids = [s.split("_")[0]] + ALSO.get(s, [])
    for pid in pids:
      if pid in MODULES and (not a.props or pid in a.props.split(",")):
        jobs.append((s, pid))
  with cf.ThreadPoolExecutor(max_workers=a.jobs) as ex:
    futs = {ex.submit(run_one, s, pid, a.tier): (s, pid) for s, pid in jobs}
    for f in cf.as_completed(futs):
      s, pid = futs[f]
      r = f.result()
      mp = os.path.join(SEEDED, s, "meta.json")
      meta = json.load(open(mp))
      meta.setdefault("checks_run", {})["%s/%s" % (pid, a.tier)] = r
      meta["detected"] = any(v["rc"] == 1 for k, v in meta["checks_run"].items())
      json.dump(meta, open(mp, "w"), indent=1)
      print(s, pid, a.tier, "rc=%d" % r["rc"], (r["first_identities"] or r["machinery"] or [""])[0][:160], flush=True)


if __name__ == "__main__":
  main()
