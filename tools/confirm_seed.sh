#!/bin/bash
# usage: confirm_seed.sh <seed dir containing patch.diff + demo.py> <out dir>
# In a fresh scratch worktree of /repo (outside /repo and /verif): demo on the unchanged tree (expect 0), demo with the
# patch (expect 1), pinned suite with the patch (expect every BASELINE stable_pass test to pass). Writes confirm.json.
SD="$1"; OUT="$2"; NAME=$(basename "$SD")
WT=/tmp/confirm_wt/$NAME
mkdir -p /tmp/confirm_wt "$OUT"
git -C /repo worktree remove --force "$WT" 2>/dev/null
git -C /repo worktree add --detach "$WT" HEAD >/dev/null 2>&1 || { echo "worktree failed"; exit 2; }
run_demo() { (cd "$SD" && TF_USE_LEGACY_KERAS=1 PROTOCOL_BUFFERS_PYTHON_IMPLEMENTATION=python TF_CPP_MIN_LOG_LEVEL=3 PYTHONHASHSEED=0 \
   PYTHONPATH="$WT" PYTHONDONTWRITEBYTECODE=1 timeout 1200 /venv/bin/python "$SD/demo.py" > "$OUT/$1.log" 2>&1; echo $?); }
RC0=$(run_demo demo_unpatched)
git -C "$WT" apply "$SD/patch.diff" || { echo "apply failed"; git -C /repo worktree remove --force "$WT"; exit 2; }
RC1=$(run_demo demo_patched)
(cd "$WT" && PYTHONDONTWRITEBYTECODE=1 timeout 3000 /venv/bin/python -m pytest -q -p no:cacheprovider --timeout=900 --continue-on-collection-errors \
   --junitxml="$OUT/suite.junit.xml" > "$OUT/suite.log" 2>&1)
/venv/bin/python - "$OUT" "$RC0" "$RC1" "$NAME" <<'PY'
import json, sys, xml.etree.ElementTree as ET
out, rc0, rc1, name = sys.argv[1], int(sys.argv[2]), int(sys.argv[3]), sys.argv[4]
base = set(json.load(open('/root/.vp/BASELINE.json'))['stable_pass'])
passed = set()
for tc in ET.parse(out + '/suite.junit.xml').getroot().iter('testcase'):
    if not any(ch.tag in ('failure', 'error', 'skipped') for ch in tc):
        passed.add(tc.get('classname') + '::' + tc.get('name'))
missing = sorted(base - passed)
res = {"seed": name, "demo_unpatched_rc": rc0, "demo_patched_rc": rc1, "baseline_tests": len(base),
       "baseline_tests_passing_with_patch": len(base & passed), "baseline_tests_broken_by_patch": missing,
       "confirmed": rc0 == 0 and rc1 == 1 and not missing}
json.dump(res, open(out + '/confirm.json', 'w'), indent=1)
print(json.dumps(res))
PY
git -C /repo worktree remove --force "$WT"
