"""Round 5: copies confirmed seeded changes from /tmp/seed5 + /tmp/confirm5 into /verif/seeded/<id>/."""
import json, os, shutil
DUPLICATES = {"C03_9": "C03_2", "C04_9": "C04_3", "C04_10": "C05_3", "C05_9": "C05_2", "C05_10": "C05_6", "C06_9": "C06_2",
              "C08_9": "C08_7", "C10_9": "C10_1", "C13_9": "C13_2", "C14_9": "C14_4", "C15_9": "C15_2", "C16_9": "C16_7",
              "C16_10": "C16_4", "C20_9": "C20_3"}
META = {
 "C01_9": ("quantized_linear.min() derived from -max()", "symmetric=0, keep_negative, bits >= 2, an input saturating at the lowest code; read q.min()"),
 "C01_10": ("quantized_linear.range() enumerates two's complement words (port of quantized_bits.range())", "signed symmetric quantized_linear, bits >= 2; compare range() with the reachable set"),
 "C02_9": ("set_internal_sigmoid: elif chain became if / if-else ('real' overwritten by 'hard')", "set_internal_sigmoid('real') and quantized_sigmoid / quantized_tanh without use_real_*"),
 "C02_10": ("quantized_linear._scale_clip_and_round: new default argument used by the constant-scale call site", "quantized_linear with a constant alpha other than 1"),
 "C03_10": ("quantized_po2.max()/min(): np.power(2, max_exp) with an integer base wraps int64", "quantized_po2(bits=8) without max_value; compare outputs with min()/max()"),
 "C06_10": ("quantized_relu_po2: surrogate of the STE not clipped at max_value", "quantized_relu_po2 with max_value and inputs above it; gradient"),
 "C07_9": ("QNoiseScheduler.get_quantizers: knob detected by truthiness of qnoise_factor", "a quantizer constructed with qnoise_factor=0.0"),
 "C07_10": ("QNoiseScheduler.calculate_qnoise_factor: ramp by np.power on int64", "integer exponent and a ramp long enough that (finish-start)**exponent >= 2**63"),
 "C08_10": ("_clip_power_of_two: stochastic flag tested before log2_rounding == 'floor'", "po2 quantizer with log2_rounding='floor' and use_stochastic_rounding=True, inference phase"),
 "C09_9": ("Registry.lookup: first registered name that is a prefix of the requested name", "lookup_quantizer('quantized_relu_po2')"),
 "C09_10": ("binary.get_config exports an ndarray alpha as a list, from_config does not convert it back", "binary with a per-channel numpy alpha, rebuilt from its config and called"),
 "C10_10": ("quantized_bits.__str__ drops options whose value is 0", "auto / auto_po2 alpha with scale_axis=0, min_po2_exponent=0 or max_po2_exponent=0"),
 "C11_9": ("QDepthwiseConv2D.build compares data_format with 'channel_first'", "QDepthwiseConv2D(data_format='channels_first') on an input whose width differs from its channel count"),
 "C11_10": ("QGRU.call no longer forwards mask", "QGRU behind Masking / called with mask= and padded steps"),
 "C12_9": ("model_quantize Bidirectional branch: forward dictionary reused for the explicit backward layer (patch rebased onto the repaired tree)", "Bidirectional(layer, backward_layer=<explicit layer>) selected by class or name"),
 "C12_10": ("model_quantize weight transfer skips the first layer of Sequential models", "transfer_weights=True, Sequential source whose first layer has weights"),
 "C13_10": ("load_qmodel: custom_objects = user or library", "HDF5 model mixing library layers with a user-defined object passed in custom_objects"),
 "C14_10": ("model_save_quantized_weights: po2 dispatch by startswith('quantized_po2')", "weights quantized with quantized_relu_po2"),
 "C15_10": ("convert_folded_layer_to_unfolded sets use_bias=True before the config copy loop", "folded layer built with use_bias=False, then unfold_model"),
 "C17_9": ("Maximum/Minimum/Average/Concatenate: 'all inputs identical' decided by the last input only", "merge with >= 3 inputs, first and last identical, a middle one different"),
 "C17_10": ("IAdder: commutative lookup in the adder dispatch table", "first operand a 0/1 gate type (mode 4), second a po2 type"),
 "C18_9": ("qgraph: source quantizers matched to input layers in layer order instead of model.inputs order", "functional model with 2 inputs listed in another order than created, different source quantizers"),
 "C18_10": ("unfold_model: weight copy skips layer 0", "analyze_accumulator on a keras.Sequential whose first layer is a quantized dense / conv"),
 "C19_9": ("operation count dispatch: endswith('Conv2D') swallows depthwise layers", "(Q)DepthwiseConv2D with more than one channel"),
 "C19_10": ("missing comma in the MAC-layer list of energy_estimate", "model containing a non-quantized Conv1D or DepthwiseConv2D"),
 "C20_10": ("compute_model_size: config.get(cls) or config.get('default') ignores an explicit []", "a 'default' entry and a class mapped to the empty list"),
}
for name, (what, needs) in sorted(META.items()):
  src, conf = "/tmp/seed5/" + name, "/tmp/confirm5/%s/confirm.json" % name
  c = json.load(open(conf))
  if not c["confirmed"]:
    print("skip (confirmation failed)", name); continue
  dst = "/verif/seeded/" + name
  os.makedirs(dst, exist_ok=True)
  for f in ("patch.diff", "demo.py", "notes.md"):
    if os.path.exists(os.path.join(src, f)):
      shutil.copy(os.path.join(src, f), os.path.join(dst, f))
  old = json.load(open(dst + "/meta.json")) if os.path.exists(dst + "/meta.json") else {}
  meta = {"id": name, "property": name.split("_")[0], "what": what, "needs_to_manifest": needs,
          "origin": "fresh sub-agent (round 5) given only the property text and its own scratch worktree",
          "confirmed_by_me": {"how": "tools/confirm_seed.sh in a scratch worktree under /tmp/confirm_wt: demo.py on the unchanged tree, "
                                     "demo.py with the patch, pinned suite (BASELINE.json cmd) with the patch",
                              "demo_unpatched_rc": c["demo_unpatched_rc"], "demo_patched_rc": c["demo_patched_rc"],
                              "baseline_tests_passing_with_patch": c["baseline_tests_passing_with_patch"],
                              "baseline_tests_broken_by_patch": c["baseline_tests_broken_by_patch"]},
          "checks_run": old.get("checks_run", {})}
  json.dump(meta, open(dst + "/meta.json", "w"), indent=1)
print("imported", len(META))
json.dump({"not_imported_exact_duplicates_of": DUPLICATES}, open("/verif/seeded/round5_duplicates.json", "w"), indent=1)
