"""Round 2: copies confirmed seeded changes from /tmp/seed2 + /tmp/confirm2 into /verif/seeded/<id>/.
Exact duplicates of round-1 seeds (same function, same edit) are not imported; they are listed in DUPLICATES."""
import json, os, shutil
DUPLICATES = {"C02_3": "C02_1", "C03_3": "C03_1", "C05_4": "C05_1", "C07_3": "C07_2", "C09_3": "C09_1", "C11_4": "C11_2",
              "C12_4": "C12_2", "C13_4": "C13_2", "C14_3": "C14_1", "C15_3": "C15_1", "C19_3": "C19_1", "C20_4": "C20_2"}
META = {
 "C01_3": ("quantized_tanh symmetric lower clip uses 2^bits instead of 2^(bits-1)", "symmetric=True and an input negative enough to saturate"),
 "C01_4": ("quantized_linear.get_clip_bounds: symmetric branch forgets keep_negative (unsigned format emits negative codes)", "keep_negative=False with symmetric truthy and a negative input; also min()/range()"),
 "C02_4": ("_round_through: tf.round(x) -> tf.floor(x+0.5)", "input nextafter(step/2, 0) (one ulp below a breakpoint), or >= 2^23 steps"),
 "C03_4": ("quantized_relu_po2 negative branch no longer passes max_value", "negative_slope != 0, max_value below the top exponent, slope*|x| >= sqrt(2)*max_value"),
 "C04_3": ("_repeat_along_axis: tf.repeat rewritten as tf.tile (group scales land on the wrong elements)", "elements_per_scale >= 2 with at least 2 groups on the scale axis, alpha auto/auto_po2"),
 "C04_4": ("ternary.__call__: tanh block moved above the threshold comparison (dead band tested on tanh(x))", "alpha=None and threshold <= |x| < atanh(threshold), or threshold >= 1"),
 "C05_3": ("_get_least_squares_scale: 'is not None' guards became truthiness (a po2 exponent bound of 0 is ignored)", "auto_po2 with min/max_po2_exponent equal to 0"),
 "C06_3": ("quantized_relu restructured: K.relu(x) drops the slope in the unbounded, non-quantized-clip case", "is_quantized_clip=False, relu_upper_bound=None, negative_slope > 0; gradient for x < 0"),
 "C06_4": ("quantized_linear: STE applied to the unclipped x (gradient 1 in the clipped region)", "fixed scale and inputs outside the representable range; forward value unchanged"),
 "C07_4": ("quantized_relu_po2 non-STE mixing uses x_original instead of the relu'd x", "use_ste=False, qnoise_factor < 1, x < 0 or x > max_value"),
 "C08_3": ("_clip_power_of_two stochastic inference lambda takes the log of x_abs instead of x_input", "po2 quantizers, use_stochastic_rounding, quadratic_approximation=True, learning phase 0"),
 "C08_4": ("quantized_relu negative-slope _round_through call loses precision=1.0", "negative_slope > 0, use_stochastic_rounding, training phase, negative input"),
 "C09_4": ("quantized_bits.from_config rewritten non-mutating, passes post_training_scale explicitly", "quantized_hswish (inherits from_config) rebuilt from a config"),
 "C10_3": ("safe_eval.IsNum rewritten with isdigit (scientific notation no longer a number)", "float literal in scientific notation (5e-2, 2e-05) in a quantizer string; str() of small floats"),
 "C10_4": ("get_quantizer removes blanks from the string before safe_eval", "blank-separated list argument, e.g. scale_axis=[0 1]"),
 "C11_3": ("QLSTMCell fused path uses self.recurrent_kernel instead of the quantized recurrent kernel", "QLSTM(implementation=2) with a recurrent_quantizer"),
 "C12_3": ("utils.get_config lookup refactored into a loop returning the first entry that contains the parameter", "partial per-name entry plus a class entry for the same layer"),
 "C13_3": ("QSeparableConv2D.get_config serialises the depthwise quantizer under pointwise_quantizer", "QSeparableConv2D with different depthwise / pointwise quantizers through json/clone/h5"),
 "C14_4": ("model_save_quantized_weights: BN-fusing block moved before layer.set_weights(weights)", "fused conv/BN pair with use_bias and a lossy bias quantizer, first export of float weights"),
 "C15_4": ("QDepthwiseConv2DBatchnorm.call drops dilation_rate from the second depthwise conv", "dilation_rate != (1,1)"),
 "C16_3": ("multiplier_impl.Adder: max_val_po2 == -1 'or' -> 'and'", "po2 x po2 multiplier where exactly one operand has max_value"),
 "C16_4": ("QuantizedRelu.convert_qkeras_quantizer: 'bits == 1 and int_bits == 1' -> 'bits == 1'", "quantized_relu(1, integer != 1) input times a fixed-point weight"),
 "C17_3": ("FixedPointAccumulator: log_add_ops from kernel_add_ops (bias term ignored)", "use_bias=True with prod(kernel_shape[:-1]) an exact power of two"),
 "C17_4": ("FixedPointAdder: output sign bit reused when computing the operands' fractional bits", "one signed and one unsigned operand where the unsigned one is finer"),
 "C18_3": ("adjust_accumulator_for_auto_po2: fused accumulator built from multiplier instead of fused_multiplier", "auto_po2 kernel whose scale is not 1"),
 "C18_4": ("analyze_accumulator: n1/n0 choice simplified to max(n1, -n0) (negative extreme dropped)", "asymmetric input range and a negative-heavy layer"),
 "C19_4": ("memory_write_energy: DRAM write cost indented into 'if rd_wr_on_io'", "pe(activations_on_memory='dram', rd_wr_on_io=False), non-output layers"),
 "C20_3": ("AutoQKHyperModel._adjust_limit: default[length:2]+default[-1:] -> default[length:3]", "4-entry default limit with default[2] > default[3], short limit list for a non-recurrent class, inline activation"),
}
for name, (what, needs) in sorted(META.items()):
  src, conf = "/tmp/seed2/" + name, "/tmp/confirm2/%s/confirm.json" % name
  c = json.load(open(conf))
  if not c["confirmed"]:
    print("skip (confirmation failed)", name); continue
  dst = "/verif/seeded/" + name
  os.makedirs(dst, exist_ok=True)
  for f in ("patch.diff", "demo.py", "notes.md"):
    if os.path.exists(os.path.join(src, f)):
      shutil.copy(os.path.join(src, f), os.path.join(dst, f))
  old = json.load(open(dst + "/meta.json")) if os.path.exists(dst + "/meta.json") else {}
  meta = {"id": name, "property": name.split("_")[0], "what": what, "needs_to_manifest": needs,
          "origin": "fresh sub-agent (round 2) given only the property text and its own scratch worktree",
          "confirmed_by_me": {"how": "tools/confirm_seed.sh in a scratch worktree under /tmp/confirm_wt: demo.py on the unchanged tree, "
                                     "demo.py with the patch, pinned suite (BASELINE.json cmd) with the patch",
                              "demo_unpatched_rc": c["demo_unpatched_rc"], "demo_patched_rc": c["demo_patched_rc"],
                              "baseline_tests_passing_with_patch": c["baseline_tests_passing_with_patch"],
                              "baseline_tests_broken_by_patch": c["baseline_tests_broken_by_patch"]},
          "checks_run": old.get("checks_run", {})}
  json.dump(meta, open(dst + "/meta.json", "w"), indent=1)
  print("imported", name)
json.dump({"not_imported_exact_duplicates_of": DUPLICATES}, open("/verif/seeded/round2_duplicates.json", "w"), indent=1)
