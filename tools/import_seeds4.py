"""Round 3: copies confirmed seeded changes from /tmp/seed4 + /tmp/confirm4 into /verif/seeded/<id>/."""
import json, os, shutil
DUPLICATES = {"C03_7": "C03_5", "C04_8": "C04_3", "C05_7": "C05_3", "C07_7": "C07_6", "C10_7": "C10_3", "C12_7": "C12_3", "C13_7": "C13_6",
              "C14_7": "C14_4", "C15_8": "C15_2", "C17_7": "C17_6", "C20_8": "C20_2"}
META = {
 "C01_7": ("quantized_linear: clip bounds computed once at construction", "symmetric re-assigned after construction"),
 "C01_8": ("quantized_linear.range(): codes scaled by data_type_scale instead of quantization_scale", "constant alpha other than 1 and a call to range()"),
 "C02_7": ("quantized_tanh: 2*_sigmoid(x)-1 replaced by the hard_tanh helper", "set_internal_sigmoid('smooth'/'real') before use"),
 "C02_8": ("quantized_bits: binary branch chosen by bits > 1 instead of unsigned_bits > 0", "quantized_bits(bits=1, keep_negative=False)"),
 "C03_8": ("quantized_relu_po2.__init__: arguments of _get_min_max_exponents swapped", "default quantized_relu_po2 (max_value None or > 1) with inputs beyond the true exponent range"),
 "C04_7": ("stochastic_binary.__init__ passes alpha positionally into binary's use_01 slot", "stochastic_binary with a non-None alpha in the inference phase"),
 "C05_8": ("quantized_linear.scale memoised and never invalidated", "call, read .scale, call on other data, read .scale again"),
 "C06_7": ("_round_through: inference branch of stochastic rounding returns plain tf.round", "use_stochastic_rounding=True with the learning phase off; gradient"),
 "C06_8": ("quantized_linear._get_auto_quantization_scale returns the scale without stop_gradient", "alpha='auto', gradient at the per-channel maximum elements"),
 "C07_8": ("BaseQuantizer.build returns early when already built", "quantizer built during model construction, then the scheduler's rebuild to variable storage"),
 "C08_7": ("stochastic_ternary.__init__ no longer forwards number_of_unrolls", "number_of_unrolls != 5 with alpha='auto', inference phase"),
 "C08_8": ("quantized_relu_po2 negative branch passes use_stochastic_rounding / quadratic_approximation swapped", "negative_slope > 0 and use_stochastic_rounding != quadratic_approximation, negative inputs"),
 "C09_7": ("quantized_bits.from_config filters the config by quantized_bits.__init__ (quantized_hswish inherits it)", "quantized_hswish with non-default relu_shift / relu_upper_bound"),
 "C09_8": ("stochastic_ternary.get_config omits temperature", "temperature != default and a training-phase comparison"),
 "C10_8": ("get_quantizer caches the quantizer object per string", "the same text parsed earlier and its object mutated in place (layer role, update_qnoise_factor)"),
 "C11_7": ("QGlobalAveragePooling2D: pooling area computed once in build()", "the same layer object called later on another spatial size"),
 "C11_8": ("QBidirectional.get_quantizers extends the forward cell's list in place", "get_quantizers() called more than once"),
 "C12_8": ("model_quantize ReLU / LeakyReLU branch pops the parameters before deciding whether to convert", "(Leaky)ReLU with non-default parameters and a QActivation map lacking that kind"),
 "C13_8": ("clone_model copies weights per layer through layer.get_weights()", "QAdaptiveActivation whose running statistics have moved (its get_weights is empty)"),
 "C14_8": ("quantized_bits._set_trainable_parameter sets freeze_scale unconditionally", "model from clone_model_and_freeze_auto_po2_scale whose weights then change"),
 "C15_7": ("QConv2DBatchnorm.call gates the bias quantization on use_bias", "QConv2DBatchnorm(use_bias=False, bias_quantizer=<lossy>)"),
 "C16_7": ("Mux: substring test on the weight name replaced by an exact match", "stochastic_binary / stochastic_ternary weights"),
 "C16_8": ("Binary.convert_qkeras_quantizer uses getattr(q, 'use_01', False); Bernoulli calls super()", "bernoulli quantizer through the QuantizerFactory"),
 "C17_8": ("po2_qbits_converter builds the fixed-point twin always signed", "unsigned po2 operand (quantized_relu_po2) in IAdder or Add merge"),
 "C18_7": ("module-level cache of unfold_model(in_model) in estimate.py", "analyze_accumulator, change the weights of the same model object, call again"),
 "C18_8": ("interface.populate_quantizer: int_bits + is_signed replaced by int_bits + 1", "unsigned fixed-point entries read through _output_dict / JSON"),
 "C19_7": ("get_operation_count memoised by layer name, class and input shape", "two QTools runs on models that share layer names with different geometry"),
 "C19_8": ("energy_estimate merge branch: number_of_inputs = len(input_shape) after input_shape was rebound", "Add / Multiply whose rank differs from its input count"),
 "C20_7": ("AutoQKHyperModel.quantize_model treats sigmoid like softmax", "Dense / Conv layer with a built-in sigmoid activation inside the limits"),
}
for name, (what, needs) in sorted(META.items()):
  src, conf = "/tmp/seed4/" + name, "/tmp/confirm4/%s/confirm.json" % name
  c = json.load(open(conf))
  if not c["confirmed"]:
    print("skip (confirmation failed)", name); continue
  dst = "/verif/seeded/" + name
  os.makedirs(dst, exist_ok=True)
  for f in ("patch.diff", "demo.py", "notes.md"):
    if os.path.exists(os.path.join(src, f)):
      shutil.copy(os.path.join(src, f), os.path.join(dst, f))
  old = json.load(open(dst + "/meta.json")) if os.path.exists(dst + "/meta.json") else {}
  meta = {"id": name, "property": name.split("_")[0], "what": what, "needs_to_manifest": needs,
          "origin": "fresh sub-agent (round 4) given only the property text and its own scratch worktree",
          "confirmed_by_me": {"how": "tools/confirm_seed.sh in a scratch worktree under /tmp/confirm_wt: demo.py on the unchanged tree, "
                                     "demo.py with the patch, pinned suite (BASELINE.json cmd) with the patch",
                              "demo_unpatched_rc": c["demo_unpatched_rc"], "demo_patched_rc": c["demo_patched_rc"],
                              "baseline_tests_passing_with_patch": c["baseline_tests_passing_with_patch"],
                              "baseline_tests_broken_by_patch": c["baseline_tests_broken_by_patch"]},
          "checks_run": old.get("checks_run", {})}
  json.dump(meta, open(dst + "/meta.json", "w"), indent=1)
print("imported", len(META))
json.dump({"not_imported_exact_duplicates_of": DUPLICATES}, open("/verif/seeded/round4_duplicates.json", "w"), indent=1)
