"""Development aid: like sweep_seeds.py, but for a directory of not-yet-imported candidate changes
(<dir>/<Cxx_n>/patch.diff).  Prints one line per candidate; nothing is written under /verif.

usage: sweep_dir.py <dir> [--jobs 3] [--only a,b] [--tier quick]
"""
import argparse, os, sys
import concurrent.futures as cf
sys.path.insert(0, os.path.dirname(os.path.abspath(__file__)))
import sweep_seeds


def main():
  ap = argparse.ArgumentParser()
  ap.add_argument("dir")
  ap.add_argument("--jobs", type=int, default=3)
  ap.add_argument("--only", default="")
  ap.add_argument("--tier", default="quick")
  a = ap.parse_args()
  sweep_seeds.SEEDED = a.dir
  names = sorted(d for d in os.listdir(a.dir) if os.path.exists(os.path.join(a.dir, d, "patch.diff")))
  if a.only:
    names = [n for n in names if n in a.only.split(",")]
  with cf.ThreadPoolExecutor(max_workers=a.jobs) as ex:
    futs = {ex.submit(sweep_seeds.run_one, n, n.split("_")[0], a.tier): n for n in names}
    for f in cf.as_completed(futs):
      n = futs[f]
      try:
        r = f.result()
        print(n, "rc=%d" % r["rc"], "violations=%d" % r["violations_reported"], (r["first_identities"] or r["machinery"] or [""])[0][:200], flush=True)
      except Exception as e:
        print(n, "ERROR", repr(e)[:200], flush=True)


if __name__ == "__main__":
  main()
