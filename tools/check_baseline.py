"""usage: check_baseline.py <junit.xml> : every BASELINE.json stable_pass test must pass in the given junit file."""
import json, sys, xml.etree.ElementTree as ET
base = set(json.load(open('/root/.vp/BASELINE.json'))['stable_pass'])
passed = set()
for tc in ET.parse(sys.argv[1]).getroot().iter('testcase'):
  if not any(ch.tag in ('failure', 'error', 'skipped') for ch in tc):
    passed.add(tc.get('classname') + '::' + tc.get('name'))
missing = sorted(base - passed)
print("baseline %d, passing %d, missing %s" % (len(base), len(base & passed), missing))
sys.exit(1 if missing else 0)
