"""Round 3: copies confirmed seeded changes from /tmp/seed3 + /tmp/confirm3 into /verif/seeded/<id>/."""
import json, os, shutil
DUPLICATES = {"C01_5": "C01_1", "C04_5": "C04_3", "C05_5": "C05_3", "C06_5": "C06_1", "C12_5": "C12_1", "C12_6": "C12_2", "C13_5": "C13_2",
              "C15_5": "C15_2", "C17_5": "C17_4", "C18_6": "C18_1", "C20_5": "C20_3", "C20_6": "C20_2"}
META = {
 "C01_6": ("quantized_bits.range(): the 'symmetric == 0' assertion dropped", "signed quantized_bits with symmetric=1 calling range(): lists -2^integer, which is never emitted"),
 "C02_5": ("quantized_linear.get_clip_bounds: parentheses lost, clip_min = -keep_negative*2^n + symmetric", "keep_negative=False with truthy symmetric and an input below half a step (maps to +1 step)"),
 "C02_6": ("quantized_sigmoid captures the library-wide _sigmoid global once in the constructor", "quantizer built before set_internal_sigmoid('smooth'/'real') and evaluated afterwards"),
 "C03_5": ("_clip_power_of_two: the final epsilon test uses the floored x_filter instead of x_abs", "formats with e_min < -23 and |x| < 1e-7 (zeros, negatives of the non-leaky relu variant)"),
 "C03_6": ("_get_min_max_exponents: effect_bits = max(..., 1) guard", "quantized_po2(bits=2) with max_value None or > 1"),
 "C04_6": ("ternary.__call__: thres = self.threshold or self.default_threshold", "ternary(alpha const or None, threshold=0.0) and 0 < |x| < 0.33"),
 "C05_6": ("quantized_linear._get_quantization_scale_from_max_data: epsilon floor only in the keep_negative=False branch", "quantized_linear(alpha='auto', keep_negative=True) with an all-zero channel (NaN)"),
 "C06_6": ("_round_through: training-phase branch returns stochastic_round(x) without the straight-through residual", "use_stochastic_rounding=True in the training phase; gradient identically zero"),
 "C07_5": ("BaseQuantizer.build creates the variable only 'if not self.built'", "quantizer already called in float mode before QNoiseScheduler.on_train_begin rebuilds it"),
 "C07_6": ("QNoiseScheduler.on_train_begin: the 'if not self.quantizers' guard removed (factors reset on each fit)", "a second fit() with the same callback after the factor is above 0"),
 "C08_5": ("quantized_tanh: precision=1.0 dropped from the _round_through call", "use_stochastic_rounding=True in the training phase (half-step outputs)"),
 "C08_6": ("binary.__call__: outer smart_cond on the learning phase removed", "binary(use_stochastic_rounding=True), training phase off, small negative inputs"),
 "C09_5": ("binary.get_config drops unset scaling options with 'if not value'", "scale_axis=0 or min/max_po2_exponent=0"),
 "C09_6": ("quantized_bits.from_config converts post_training_scale on a copy but calls cls(**config)", "ndarray post_training_scale, one round trip, then a second export of the rebuilt quantizer"),
 "C10_5": ("safe_eval.GetParams keyword-value regex excludes blanks", "blank-separated list value (scale_axis=[0 1]); str() of such quantizers no longer re-parses"),
 "C10_6": ("quantized_relu.__str__ prints relu_upper_bound through int()", "is_quantized_clip=False with a fractional bound (1.5, 0.75)"),
 "C11_5": ("QGRUCell fused branch: candidate-state product uses self.recurrent_kernel instead of the quantized one", "QGRU(implementation=2, reset_after=False) with a recurrent_quantizer"),
 "C11_6": ("QScaleShift.get_quantizers holds the raw weight_quantizer argument instead of the internal quantizer", "layer built from a quantizer string or from its own config"),
 "C13_6": ("QBatchNormalization.get_config writes quantizer entries only when not None", "explicit None quantizers (defaults are po2 quantizers) through json / h5"),
 "C14_5": ("add_bn_fusing_weights: fused_bias from the un-quantized gamma*rsqrt(var+eps)", "QBatchNormalization with inverse_quantizer"),
 "C14_6": ("model_save_quantized_weights: a QBatchNormalization in bn_layers_to_skip is really skipped", "BN directly behind a single-consumer QConv2D / QDepthwiseConv2D"),
 "C15_6": ("QDepthwiseConv2DBatchnorm.call: final bias_add wrapped in 'if self.use_bias'", "folded depthwise layer with use_bias=False"),
 "C16_5": ("multiplier_impl.Mux else-branch: sign-extension test copy-pasted from the first branch", "unsigned weight type with a ternary or binary(+-1) input"),
 "C16_6": ("MultiplierFactory.make_multiplier: deepcopy of the output-type template dropped", "one factory reused for two operand pairs; the earlier result read after the later call"),
 "C17_6": ("AccumulatorFactory.make_accumulator: po2 dispatch keyed on isinstance(multiplier, Adder)", "po2-output multiplier that is not po2*po2 (ternary/binary weights with po2 activations)"),
 "C18_5": ("analyze_accumulator: depthwise kernel collapsed with k[..., 0]", "QDepthwiseConv2D with depth_multiplier >= 2 whose heaviest filter is not the first of its channel"),
 "C19_5": ("generate_layer_data_type_map: the last wired input (not the largest) defines the merge operation count", "Add / Multiply with a broadcast input (squeeze-excite gate)"),
 "C19_6": ("QTools.extract_energy_sum / extract_energy_profile: cfg.get(cls) or cfg.get('default')", "a cost setting that maps a layer class to an empty list"),
}
for name, (what, needs) in sorted(META.items()):
  src, conf = "/tmp/seed3/" + name, "/tmp/confirm3/%s/confirm.json" % name
  c = json.load(open(conf))
  if not c["confirmed"]:
    print("skip (confirmation failed)", name); continue
  dst = "/verif/seeded/" + name
  os.makedirs(dst, exist_ok=True)
  for f in ("patch.diff", "demo.py", "notes.md"):
    if os.path.exists(os.path.join(src, f)):
      shutil.copy(os.path.join(src, f), os.path.join(dst, f))
  old = json.load(open(dst + "/meta.json")) if os.path.exists(dst + "/meta.json") else {}
  meta = {"id": name, "property": name.split("_")[0], "what": what, "needs_to_manifest": needs,
          "origin": "fresh sub-agent (round 3) given only the property text and its own scratch worktree",
          "confirmed_by_me": {"how": "tools/confirm_seed.sh in a scratch worktree under /tmp/confirm_wt: demo.py on the unchanged tree, "
                                     "demo.py with the patch, pinned suite (BASELINE.json cmd) with the patch",
                              "demo_unpatched_rc": c["demo_unpatched_rc"], "demo_patched_rc": c["demo_patched_rc"],
                              "baseline_tests_passing_with_patch": c["baseline_tests_passing_with_patch"],
                              "baseline_tests_broken_by_patch": c["baseline_tests_broken_by_patch"]},
          "checks_run": old.get("checks_run", {})}
  json.dump(meta, open(dst + "/meta.json", "w"), indent=1)
print("imported", len(META))
json.dump({"not_imported_exact_duplicates_of": DUPLICATES}, open("/verif/seeded/round3_duplicates.json", "w"), indent=1)
