#!/bin/bash
# usage: tools/stability.sh "<seeds>" "<pids>" [tier]   -- runs checks on the unchanged tree with several seeds;
# evidence/replays go to a scratch dir. Prints one line per run; any rc != 0 is a false alarm or a machinery bug.
SEEDS="${1:-1 2 3}"; PIDS="${2:-C01 C02 C03 C04 C05 C06 C07 C08}"; TIER="${3:-quick}"
OUT=$(mktemp -d /tmp/stab_XXXX)
cd "$(dirname "$0")/.."
for sd in $SEEDS; do for p in $PIDS; do
  VERIF_SEED=$sd VERIF_OUT=$OUT bin/check $p --tier $TIER > $OUT/$p.$sd.log 2>&1; rc=$?
  echo "seed=$sd $p rc=$rc $(tail -1 $OUT/$p.$sd.log | cut -c1-160)"
  [ $rc != 0 ] && grep -A1 -E "^VIOLATION|^MACHINERY" $OUT/$p.$sd.log | cut -c1-400 | head -12
done; done
rm -rf $OUT
