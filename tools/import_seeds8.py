"""Round 8: copies confirmed seeded changes from /tmp/seed8 + /tmp/confirm8 into /verif/seeded/<id>/."""
import json, os, shutil
DUPLICATES = {}
META = {
 "C01_15": ("quantized_bits: 2^integer factor hoisted into the shared epilogue (one-bit branch emits +-2^integer)", "bits=1, keep_negative, integer >= 1"),
 "C01_16": ("quantized_linear._scale_clip_and_round: half-step shift keyed on bits == 1 alone", "unsigned one-bit format"),
 "C02_15": ("quantized_linear._scale_clip_and_round: round first, clip afterwards", "one-bit signed format"),
 "C02_16": ("quantized_relu leaky branch: neg_factor = 1.0/slope*m", "negative_slope != 0 and a negative input"),
 "C03_15": ("_round_through: deterministic branches round to multiples of precision", "po2 quantizer in 'rnd' mode, frac(log2|x|) in (0.25, 0.75)"),
 "C03_16": ("quantized_po2: sign from _sign_through instead of tf.sign plus the zero fix-up", "input exactly +-0.0"),
 "C04_15": ("ternary constant-alpha branch: abs(x) >= thres became tf.where(abs(x) > thres)", "|x| exactly equal to the threshold"),
 "C04_16": ("ternary: self.scale = scale moved into the auto block", "constant alpha other than 1; read .scale"),
 "C05_15": ("quantized_bits auto branch: scale floored at K.epsilon()", "alpha='auto' and tiny weights"),
 "C05_16": ("quantized_bits final re-quantization through a tf.int32 cast", "scale that cannot follow the data and |x| around 1e6"),
 "C06_15": ("quantized_relu use_ste=False return: (1-qn)*x instead of (1-qn)*x_u", "use_ste=False, qnoise_factor < 1, inputs negative or above the clip point"),
 "C06_16": ("quantized_po2: x clipped to +-max_value before the return expressions", "max_value set and |x| > max_value; gradient"),
 "C07_15": ("QNoiseScheduler.update_qnoise_factor: num_iters incremented only inside the update_freq branch", "update_freq >= 2"),
 "C07_16": ("BaseQuantizer.update_qnoise_factor replaces the tf.Variable by a python float", "use_variables=True, update after build, traced call"),
 "C08_15": ("stochastic_round_po2 rounds the exponent stochastically", "training phase, non-power-of-two inputs"),
 "C08_16": ("quantized_linear._scale_clip_and_round: one-bit case through a sign function (stochastic rounding ignored)", "one-bit quantized_linear, stochastic rounding, training phase (first missed; detected since the sign-format family was added)"),
 "C09_15": ("quantized_relu.from_config forces is_quantized_clip=False when relu_upper_bound is present", "relu_upper_bound set with is_quantized_clip=True"),
 "C09_16": ("binary.get_config: max_po2_exponent exported from min_po2_exponent", "binary(alpha='auto_po2') with different bounds"),
 "C10_15": ("safe_eval.ListofNums parses with np.fromstring (ints become floats)", "integer list literal (scale_axis=[0 1])"),
 "C10_16": ("quantized_relu_po2.__str__ prints negative_slope with %g", "negative_slope <= 2^-9"),
 "C11_15": ("QDepthwiseConv2D.call no longer forwards dilation_rate", "dilation_rate != 1"),
 "C11_16": ("QGRUCell.call fused path: reset_after guard requires use_bias", "implementation=2, reset_after=True, use_bias=False"),
 "C12_15": ("model_quantize Bidirectional branch writes name keys into the caller's quantizer_config", "any model containing a Bidirectional layer"),
 "C12_16": ("model_quantize weight transfer by qmodel.set_weights(model.get_weights())", "transfer_weights=True and an Activation converted to QAdaptiveActivation (first missed; detected since the adaptive conversion cases were added)"),
 "C13_15": ("QAdaptiveActivation.get_config wraps current_step / quantization_delay / relu_neg_slope in int() (patch rebased onto the repaired get_config)", "relu_neg_slope a fraction"),
 "C13_16": ("QLSTM.recurrent_quantizer_internal returns the cell's kernel quantizer", "QLSTM whose kernel and recurrent quantizers differ"),
 "C14_15": ("add_bn_fusing_weights applies the inverse quantizer to rsqrt(var+eps) before multiplying by gamma", "QBatchNormalization(inverse_quantizer=...) with scale"),
 "C14_16": ("model_save_quantized_weights: folded-layer test by a class-name list with a mistyped name", "model containing QDepthwiseConv2DBatchnorm"),
 "C15_15": ("unfold_model stores the already quantized folded kernel (quantized twice)", "folded layer whose quantizer has a data-dependent, non-idempotent scale"),
 "C15_16": ("QConv2DBatchnorm.call: bn_training branches merged, logical_and(training, ...) lost", "ema_freeze_delay >= 0 and fewer training steps than the delay"),
 "C16_15": ("MultiplierFactory table: po2 x binary(+-1) switched from Mux to XorGate", "unsigned quantized_relu_po2 operand times +-1"),
 "C16_16": ("quantizer_impl.get_exp memoised on (bits, is_signed)", "two po2 types of the same width and sign but different max_value in one process"),
 "C17_15": ("merge Add: is_signed update moved inside the int_bits branch", "mixed-sign Add where the signed input does not raise the integer-bit maximum"),
 "C17_16": ("merge Maximum: is_signed still reads the first input after a loop-variable rename", "merge whose first input is unsigned and a later one signed"),
 "C18_15": ("generate_layer_data_type_map: separate bias adder replaced by make_accumulator(use_bias=True)", "bias with more integer or fraction bits than the accumulated products"),
 "C18_16": ("analyze_accumulator evaluates only the channel with the largest sum|w| + |b|", "one-sided input range, heaviest channel sign-balanced"),
 "C19_15": ("memory_read_energy: elif mode == 'sram' became else", "weights_on_memory='fixed'"),
 "C19_16": ("QTools.extract_energy_sum returns the sum of truncated layer totals", "several layers with fractional entries"),
 "C20_15": ("AutoQKHyperModel.quantize_model filters InputLayers before enumerate (layer_indexes shift)", "layer_indexes set and a functional reference model"),
 "C20_16": ("ForgivingFactorBits.get_reference: stress applied only to the returned value", "stress != 1.0"),
}
for name, (what, needs) in sorted(META.items()):
  src, conf = "/tmp/seed8/" + name, "/tmp/confirm8/%s/confirm.json" % name
  if name in DUPLICATES or not os.path.exists(conf):
    print("skip", name); continue
  c = json.load(open(conf))
  if not c["confirmed"]:
    print("skip (confirmation failed)", name); continue
  dst = "/verif/seeded/" + name
  os.makedirs(dst, exist_ok=True)
  for f in ("patch.diff", "demo.py", "notes.md"):
    if os.path.exists(os.path.join(src, f)):
      shutil.copy(os.path.join(src, f), os.path.join(dst, f))
  old = json.load(open(dst + "/meta.json")) if os.path.exists(dst + "/meta.json") else {}
  meta = {"id": name, "property": name.split("_")[0], "what": what, "needs_to_manifest": needs,
          "origin": "fresh sub-agent (round 8) given only the property text (plus the one-line titles of earlier changes, to avoid repeats) and its own scratch worktree",
          "confirmed_by_me": {"how": "tools/confirm_seed.sh in a scratch worktree under /tmp/confirm_wt: demo.py on the unchanged tree, "
                                     "demo.py with the patch, pinned suite (BASELINE.json cmd) with the patch",
                              "demo_unpatched_rc": c["demo_unpatched_rc"], "demo_patched_rc": c["demo_patched_rc"],
                              "baseline_tests_passing_with_patch": c["baseline_tests_passing_with_patch"],
                              "baseline_tests_broken_by_patch": c["baseline_tests_broken_by_patch"]},
          "checks_run": old.get("checks_run", {})}
  json.dump(meta, open(dst + "/meta.json", "w"), indent=1)
print("imported", len(META))
json.dump({"not_imported_exact_duplicates_of": DUPLICATES}, open("/verif/seeded/round8_duplicates.json", "w"), indent=1)
