"""Round 6: copies confirmed seeded changes from /tmp/seed6 + /tmp/confirm6 into /verif/seeded/<id>/."""
import json, os, shutil
DUPLICATES = {"C08_12": "C04_7"}
META = {
 "C01_11": ("quantized_relu: positive upper clip 1 - 1/m became 1 - 2^-bits", "negative_slope != 0 and an input at or above the top code"),
 "C01_12": ("quantized_linear.max() recomputed as 2^(bits-keep_negative) - 1", "bits == 1 with keep_negative (sign format): max() / range()"),
 "C02_11": ("hard_sigmoid slope 0.5 -> 0.2", "default sigmoid mode, quantized_sigmoid / quantized_tanh, 0 < |x| < 2.5"),
 "C02_12": ("quantized_linear.data_type_scale always assumes a sign bit", "keep_negative=False, no scale or a constant alpha"),
 "C03_11": ("quantized_po2: sign forced to + when |x| is below the Keras epsilon", "strictly negative input with |x| < 1e-7"),
 "C03_12": ("_clip_power_of_two floor branch: _floor_through(v) -> _round_through(v - 0.5)", "log2_rounding='floor', input exactly 2^k with odd k"),
 "C04_11": ("binary.__call__: zero-sign repair indented into the stochastic-rounding block", "exact-zero inputs with the default use_stochastic_rounding=False"),
 "C04_12": ("ternary auto branch: codes recomputed from the final scale after the unroll loop", "alpha='auto' and an iteration that has not converged (number_of_unrolls=1)"),
 "C05_11": ("_get_least_squares_scale: K.log(scale + epsilon) -> K.log(scale)", "all-zero output channel with alpha='auto_po2'"),
 "C05_12": ("quantized_bits final re-quantization divides by scale + epsilon", "alpha='auto', 8 bits, weights of magnitude ~1e-2 or below"),
 "C06_11": ("quantized_po2 non-STE return: stop_gradient(qnoise*xq) -> stop_gradient(qnoise)*xq", "use_ste=False and a gradient through the quantizer"),
 "C06_12": ("quantized_relu: m_f computed from bits instead of non_sign_bits", "negative_slope != 0 with is_quantized_clip=True; gradient just above the top code"),
 "C07_11": ("QNoiseScheduler.calculate_qnoise_factor: boundary comparison drops the start == finish guard", "start == finish and an update exactly at that step"),
 "C07_12": ("quantized_po2.__call__: lazy build no longer forwards use_variables", "quantized_po2(use_variables=True) built by its first call, then update_qnoise_factor"),
 "C08_11": ("stochastic_round rewritten as floor(x + uniform)", "training phase, wide formats (scaled values around 2^22)"),
 "C09_11": ("quantized_hswish.get_config exports int(relu_shift) / int(relu_upper_bound)", "non-integral relu_shift or relu_upper_bound"),
 "C09_12": ("get_quantizer dict branch converts list-valued config entries to np.array", "list-valued scale_axis, rebuilt through get_quantizer(dict)"),
 "C10_11": ("safe_eval.Num parses with float() and returns an int when the value is whole", "whole-valued float literal such as 1.0 or 1e3"),
 "C10_12": ("binary.__str__ prints alpha with repr()", "alpha given as a numpy scalar (np.float32(0.5))"),
 "C11_11": ("QSimpleRNNCell.call: recurrent-kernel guard tests kernel_quantizer", "exactly one of kernel_quantizer / recurrent_quantizer configured"),
 "C11_12": ("QGlobalAveragePooling2D.call: channels_first sum drops keepdims", "data_format='channels_first', keepdims=True and an average_quantizer"),
 "C12_11": ("model_quantize / quantized_model_from_json: deepcopy(custom_objects) removed", "caller passes a non-empty custom_objects (comes back with the library keys added)"),
 "C12_12": ("model_quantize: bias_quantizer defaulted once before the loop, else-branch removed (patch rebased onto the repaired tree)", "selected biasless layer after a selected biased layer"),
 "C13_11": ("QActivation.get_config serialises self.__name__ instead of self.activation", "QActivation built from a quantizer object with non-default arguments"),
 "C13_12": ("_add_supported_quantized_objects fills the layer entries from REGISTERED_LAYERS", "model containing QScaleShift, no user custom objects"),
 "C14_11": ("find_bn_fusing_layer_pair looks for a batch-norm among all successors", "QConv2D / QDepthwiseConv2D feeding a QBatchNormalization and another consumer"),
 "C14_12": ("model_save_quantized_weights no longer forwards custom_objects to find_bn_fusing_layer_pair", "model with a user-defined layer, custom_objects passed"),
 "C15_11": ("QConv2DBatchnorm.__init__ drops epsilon when creating its BatchNormalization", "non-default epsilon"),
 "C15_12": ("convert_to_folded_model decides foldability by 'Conv2D' in class_name", "SeparableConv2D followed by BatchNormalization, enable_bn_folding=True"),
 "C16_11": ("FloatingPointMultiplier takes its width from the input operand first", "fp32 weights x fp16 input"),
 "C16_12": ("FixedPointMultiplier: weight fraction bits computed with the input's sign flag", "unsigned weights x signed input"),
 "C17_11": ("Po2Adder converts the first operand twice", "po2 + po2 with a wider / finer / differently signed second operand"),
 "C17_12": ("po2_to_qbits unpacks get_min_max_exp as (max_exp, min_exp)", "po2 multiplier output feeding an accumulator"),
 "C18_11": ("analyze_accumulator loops over in_model.layers instead of the unfolded model", "batch-norm folded layer with folding factor above 1"),
 "C18_12": ("qgraph.GraphRemoveNode reconnects with in_attr instead of out_attr", "source_quantizers other than the default quantized_bits(8,0,1)"),
 "C19_11": ("energy_estimate passes activations_on_memory to parameter_read_energy", "weights_on_memory != activations_on_memory"),
 "C19_12": ("estimate.extract_model_operations QConv1D: output positions taken from input_shape", "QConv1D with stride > 1 or valid padding with kernel > 1"),
 "C20_11": ("AutoQKHyperModel._get_quantizer: re.search instead of re.match for limit patterns", "un-anchored pattern occurring inside another layer's name"),
 "C20_12": ("ForgivingFactor.delta computes the size ratio in float32", "sizes of about 2^24 bits or more, trial differing by a few bits"),
}
for name, (what, needs) in sorted(META.items()):
  src, conf = "/tmp/seed6/" + name, "/tmp/confirm6/%s/confirm.json" % name
  c = json.load(open(conf))
  if not c["confirmed"]:
    print("skip (confirmation failed)", name); continue
  dst = "/verif/seeded/" + name
  os.makedirs(dst, exist_ok=True)
  for f in ("patch.diff", "demo.py", "notes.md"):
    if os.path.exists(os.path.join(src, f)):
      shutil.copy(os.path.join(src, f), os.path.join(dst, f))
  old = json.load(open(dst + "/meta.json")) if os.path.exists(dst + "/meta.json") else {}
  meta = {"id": name, "property": name.split("_")[0], "what": what, "needs_to_manifest": needs,
          "origin": "fresh sub-agent (round 6) given only the property text (plus the one-line titles of earlier changes, to avoid repeats) and its own scratch worktree",
          "confirmed_by_me": {"how": "tools/confirm_seed.sh in a scratch worktree under /tmp/confirm_wt: demo.py on the unchanged tree, "
                                     "demo.py with the patch, pinned suite (BASELINE.json cmd) with the patch",
                              "demo_unpatched_rc": c["demo_unpatched_rc"], "demo_patched_rc": c["demo_patched_rc"],
                              "baseline_tests_passing_with_patch": c["baseline_tests_passing_with_patch"],
                              "baseline_tests_broken_by_patch": c["baseline_tests_broken_by_patch"]},
          "checks_run": old.get("checks_run", {})}
  json.dump(meta, open(dst + "/meta.json", "w"), indent=1)
print("imported", len(META))
json.dump({"not_imported_exact_duplicates_of": DUPLICATES}, open("/verif/seeded/round6_duplicates.json", "w"), indent=1)
