"""Round 7: copies confirmed seeded changes from /tmp/seed7 + /tmp/confirm7 into /verif/seeded/<id>/."""
import json, os, shutil
DUPLICATES = {}
META = {
 "C01_13": ("quantized_sigmoid: clip bounds hoisted into lo / hi = 1 - lo", "symmetric=False and an input that saturates the sigmoid (output reaches 1.0)"),
 "C01_14": ("quantized_tanh.min() rewritten as -max()", "symmetric=False, a negative saturating input; read min()"),
 "C02_13": ("quantized_relu: p = x_u * m / m_i (slope applied twice)", "negative_slope != 0 and a negative input"),
 "C02_14": ("quantized_tanh: surrogate chosen by 'use_real_tanh is True'", "use_real_tanh given as 1 (what str(q) / get_quantizer produce)"),
 "C03_13": ("_clip_power_of_two: max_value clamp guarded by max_value > 1", "max_value in (0, 1] and an input above it"),
 "C03_14": ("quantized_relu_po2: leaky slope applied after quantizing relu(-x)", "negative_slope != 0, negative input near the exponent range ends"),
 "C04_13": ("binary.__init__: self.scale_axis = scale_axis or None", "binary(alpha='auto'/'auto_po2', scale_axis=0) on rank >= 2"),
 "C04_14": ("_clip_po2_scale: K.clip replaced by minimum(min bound) / maximum(max bound)", "auto_po2 with min_po2_exponent and/or max_po2_exponent"),
 "C05_13": ("quantized_linear._get_quantization_scale_from_max_data: K.max hoisted, abs lost", "alpha auto, keep_negative, a channel whose largest magnitude is negative"),
 "C05_14": ("quantized_linear._get_auto_quantization_scale records quantization_scale before the po2 search", "quantized_linear(alpha='auto_po2'): exposed scale vs outputs"),
 "C06_13": ("ternary.__call__: tanh surrogate applied for constant alpha too", "ternary(alpha=<number>), gradient on inputs that are not tiny"),
 "C06_14": ("quantized_bits fixed-scale return: x + qn*(stop_gradient(xq) - x)", "alpha None or numeric, use_ste=True: gradient 1 - qnoise_factor"),
 "C07_13": ("QNoiseScheduler.get_quantizers only uses layer.get_quantizers()", "model containing a QActivation whose quantizer has the knob"),
 "C07_14": ("quantized_linear: x + f * (xq - x) became x + f * xq - x", "quantized_linear with qnoise_factor below 1"),
 "C08_13": ("stochastic_round_po2: comparison flipped without swapping the branches", "po2 quantizers, use_stochastic_rounding, log2 'rnd', training phase"),
 "C08_14": ("_round_through: 'if use_stochastic_rounding is True'", "flag given as the int 1 (what quantizer strings produce), training phase"),
 "C09_13": ("quantized_bits.get_config exports post_training_scale with np.ravel().tolist()", "post_training_scale along a non-last axis"),
 "C09_14": ("quantized_linear.get_config exports a numeric alpha as float(alpha)", "per-channel tensor / ndarray alpha"),
 "C10_13": ("quantized_ulaw.__str__: guard reduced to 'if self.symmetric'", "quantized_ulaw with symmetric=0 and u != 255"),
 "C10_14": ("safe_eval.Str unquotes only single quotes", "double-quoted string argument, e.g. binary(alpha=\"auto\")"),
 "C11_13": ("QConv1D.call uses self.convolution_op instead of K.conv1d", "padding='causal'"),
 "C11_14": ("QSeparableConv1D.call: causal left pad inlined as kernel_size - 1", "padding='causal' with dilation_rate > 1"),
 "C12_13": ("quantize_rnn: class_name renamed before the LSTM / GRU test", "LSTM or GRU whose entry has recurrent_activation_quantizer"),
 "C12_14": ("model_quantize get_config: lookup key layer.get('name')", "Sequential source with per-name entries; Bidirectional"),
 "C19_13": ("memory_read_energy: min_sram_size folded into the bit count", "min_sram_size larger than the bit size of a tensor that is read"),
 "C19_14": ("get_operation_count depthwise: hand-written output extent uses in // stride for 'same'", "(Q)DepthwiseConv2D, padding same, stride > 1, size not a multiple of the stride"),
 "C20_13": ("AutoQKHyperModel.quantize_model: layer_indexes check moved into the first loop", "layer_indexes given, Activation in the limit, an Activation layer outside the indexes"),
 "C20_14": ("ForgivingFactor.delta floored at -1", "trial / reference above rate^(100/delta_n)"),
 "C13_13": ("QGRU.get_config serialises recurrent_activation from self.activation", "any QGRU whose gate activation differs from its candidate activation"),
 "C13_14": ("QDepthwiseConv2D.get_config serialises bias_quantizer only if use_bias", "use_bias=False together with a bias_quantizer (also QDepthwiseConv2DBatchnorm)"),
 "C14_13": ("model_save_quantized_weights: has_sign = q_name == 'quantized_po2' (no longer sticky)", "layer whose last po2 quantizer is quantized_relu_po2 after a quantized_po2 one (default QBatchNormalization)"),
 "C14_14": ("add_bn_fusing_weights reads the previous layer's bias from the exported (hardware) form", "power-of-two bias quantizer on a conv fused with a QBatchNormalization"),
 "C15_13": ("QDepthwiseConv2DBatchnorm.call: smart_cond branches choosing inv swapped", "folding_mode='batch_stats_folding' at inference"),
 "C15_14": ("model_quantize: shared fallback helper looks up kernel_quantizer for depthwise layers", "enable_bn_folding, DepthwiseConv2D + BN, config naming only QDepthwiseConv2D"),
 "C16_13": ("AndGate.__init__: integer bits max(input, weights) instead of the data operand's", "0/1 gate operand times a fixed-point operand with int_bits 0"),
 "C16_14": ("QuantizedBits.convert_qkeras_quantizer: is_signed = 1 if keep_negative is True else 0", "keep_negative=1 written as an int, unsigned partner operand"),
 "C17_13": ("merge Add.__init__: integer-bit maximum became elif after the fraction-bit if", "two-input Add of different types where one operand sets both maxima"),
 "C17_14": ("Po2FixedPointAdder passes the unconverted po2 quantizer to FixedPointAdder", "po2 + fixed-point adder whose smallest power is finer than the fixed-point step"),
 "C18_13": ("qgraph.GraphUpdateEdge only writes edges whose quantizer is still None", "dense / conv with a plain function activation feeding another dense / conv"),
 "C18_14": ("analyze_accumulator: sign guards on the input range removed", "range on one side of zero, bias opposing the extreme, true extreme just above a power of two"),
}
META.update(json.load(open("/tmp/seed7/meta_extra.json")) if os.path.exists("/tmp/seed7/meta_extra.json") else {})
for name, (what, needs) in sorted(META.items()):
  src, conf = "/tmp/seed7/" + name, "/tmp/confirm7/%s/confirm.json" % name
  if name in DUPLICATES or not os.path.exists(conf):
    print("skip", name); continue
  c = json.load(open(conf))
  if not c["confirmed"]:
    print("skip (confirmation failed)", name); continue
  dst = "/verif/seeded/" + name
  os.makedirs(dst, exist_ok=True)
  for f in ("patch.diff", "demo.py", "notes.md"):
    if os.path.exists(os.path.join(src, f)):
      shutil.copy(os.path.join(src, f), os.path.join(dst, f))
  old = json.load(open(dst + "/meta.json")) if os.path.exists(dst + "/meta.json") else {}
  meta = {"id": name, "property": name.split("_")[0], "what": what, "needs_to_manifest": needs,
          "origin": "fresh sub-agent (round 7) given only the property text (plus the one-line titles of earlier changes, to avoid repeats) and its own scratch worktree",
          "confirmed_by_me": {"how": "tools/confirm_seed.sh in a scratch worktree under /tmp/confirm_wt: demo.py on the unchanged tree, "
                                     "demo.py with the patch, pinned suite (BASELINE.json cmd) with the patch",
                              "demo_unpatched_rc": c["demo_unpatched_rc"], "demo_patched_rc": c["demo_patched_rc"],
                              "baseline_tests_passing_with_patch": c["baseline_tests_passing_with_patch"],
                              "baseline_tests_broken_by_patch": c["baseline_tests_broken_by_patch"]},
          "checks_run": old.get("checks_run", {})}
  json.dump(meta, open(dst + "/meta.json", "w"), indent=1)
print("imported", len(META))
json.dump({"not_imported_exact_duplicates_of": DUPLICATES}, open("/verif/seeded/round7_duplicates.json", "w"), indent=1)
