"""Copies confirmed seeded changes from /tmp/seed + /tmp/confirm into /verif/seeded/<id>/ (patch.diff, demo.py, notes.md,
meta.json).  The 'what'/'needs' texts summarise the sub-agents' notes."""
import json, os, shutil, sys
META = {
 "C01_1": ("quantized_relu leaky branch: slope cancelled from the negative branch but clip stays at -1, negatives saturate at -2^integer (below the smallest code and min())", "negative_slope != 0 and an input below -2^integer"),
 "C01_2": ("quantized_bits.range(): step derived from max()/2^(bits-1) (max() is floored at 1.0)", "integer < 0 (e.g. quantized_bits(4,-1)) and a call to range()"),
 "C02_1": ("quantized_bits lower clip: keep_negative*(-m+symmetric) -> -m*keep_negative+symmetric", "keep_negative=False and symmetric=True, input below half a step"),
 "C02_2": ("quantized_relu caches m_i = 2^integer at first call (stale state)", "call once, re-assign q.integer/q.bits (as QAdaptiveActivation does), call again"),
 "C03_1": ("_need_exponent_sign_bit_check: max_value > 1 -> >= 1 (exponent interval halved)", "max_value == 1 exactly, small/zero/negative input"),
 "C03_2": ("quantized_relu_po2 negative branch does not forward log2_rounding (uses 'rnd')", "negative_slope != 0, log2_rounding='floor', negative x with frac(log2(slope|x|)) >= 0.5"),
 "C04_1": ("binary: use_01 remap moved after the least-squares scale computation", "use_01=True with alpha auto/auto_po2 and a non-symmetric channel"),
 "C04_2": ("_get_least_squares_scale: po2 clip guard 'or' -> 'and' (clipping skipped when only one bound is set)", "auto_po2 with exactly one of min/max_po2_exponent set and data beyond the bound (also C05)"),
 "C05_1": ("quantized_bits auto: tf.where saturation rewritten as tf.minimum (NaN propagates)", "alpha='auto' and an all-zero channel"),
 "C05_2": ("quantized_linear._po2_autoscale drops scale_axis in the refinement call", "quantized_linear auto_po2 with non-default scale_axis, rank >= 2"),
 "C06_1": ("quantized_relu relu_upper_bound branch: surrogate K.relu(x, max_value=ub) loses negative_slope", "negative_slope != 0, is_quantized_clip=False, relu_upper_bound set, negative input; gradient only"),
 "C06_2": ("quantized_bits auto path: 'x = m_i * x' removed (surrogate stays normalised)", "string alpha with integer > 0, observed through the gradient or qnoise_factor < 1"),
 "C07_1": ("quantized_bits auto path: 'x = m_i * x' removed", "alpha auto/auto_po2, integer > 0 and qnoise_factor < 1"),
 "C07_2": ("QNoiseScheduler step mode uses Keras' per-epoch batch index instead of num_iters", "freq_type='step', more than one epoch, schedule active across an epoch boundary"),
 "C08_1": ("stochastic_round_po2: left_val tests po2 >= y (exact powers of two move)", "po2 quantizers with stochastic rounding, training phase, input exactly a power of two"),
 "C08_2": ("_round_through stochastic inference branch: tf.round -> tf.floor(x+0.5)", "use_stochastic_rounding=True, training phase off, input exactly half-way with even lower code"),
 "C09_1": ("ternary.get_config: threshold or default_threshold", "ternary alpha auto/auto_po2, round trip, then a call on the rebuilt quantizer"),
 "C09_2": ("quantized_bits.get_config: qnoise .numpy() chosen by use_variables", "quantized_bits(use_variables=True), config exported before the first call"),
 "C10_1": ("GetParams argument-order check never checks the pair (item 0, item 1)", "keyword first argument immediately followed by a positional, e.g. quantized_bits(integer=0, 4)"),
 "C10_2": ("ternary.__str__: 'threshold is not None' -> 'if self.threshold'", "ternary(threshold=0.0), str -> parse, input with 0 < |x| < 0.33"),
 "C11_1": ("QLSTMCell fused path adds self.bias instead of quantized_bias", "QLSTM implementation=2, use_bias, bias_quantizer, bias values the quantizer changes"),
 "C11_2": ("QAveragePooling2D pool area = pool_size[0]**2", "average_quantizer with a non-square window"),
 "C12_1": ("utils.get_config: cfg.get(name, cfg.get(cls)) -> cfg.get(name) or cfg.get(cls)", "class entry plus an empty name entry {} for a layer"),
 "C12_2": ("model_quantize transfer loop guard: get_weights() -> trainable_weights", "transfer_weights=True and a frozen layer or a layer with only non-trainable weights"),
 "C13_1": ("QSeparableConv1D.get_config serialises the depthwise quantizer under the pointwise key", "QSeparableConv1D with depthwise != pointwise quantizer through json/clone/h5"),
 "C13_2": ("clone_model copies weights per layer, skipping layers with empty trainable_weights", "clone route, frozen layer or layer with only non-trainable state"),
 "C14_1": ("add_bn_fusing_weights uses fixed BN weight positions (moving mean read as beta)", "fused QBatchNormalization with scale=False, center=True"),
 "C14_2": ("model_save_quantized_weights auto_po2: unsigned_bits = bits - 1", "quantized_bits(keep_negative=False, alpha='auto_po2') kernel with an odd level; integrality of hw weights"),
 "C15_1": ("QConv2DBatchnorm batch_stats_folding: folded_bias computed before inv *= gamma", "folding_mode='batch_stats_folding', gamma != 1, bias - moving_mean != 0"),
 "C15_2": ("convert_to_folded_model drops is_single from the foldability condition", "non-sequential model: conv output feeds a BN and a side branch"),
 "C16_1": ("Shifter: extra sign bit decided by operand position instead of role", "po2 type on the input side, fixed-point weights unsigned, po2 signed"),
 "C16_2": ("get_exp: ceil(log2(max_val)) -> int(log2(max_val))", "po2 quantizer with a non power-of-two max_value (1.5, 3, 6, 12)"),
 "C17_1": ("FixedPointAdder total bits = max(bits)+1 (fraction bits dropped)", "operands with crossing formats or mixed signedness"),
 "C17_2": ("FixedPointAccumulator add_ops = max(N-1,1)+bias (one bit short)", "N = 2^k+1 terms without bias, or N = 2^k with bias"),
 "C18_1": ("generate_layer_data_type_map passes kernel_accumulator.output (pre-bias) downstream", "two dense/conv layers back to back without activation, first with a wide bias, extreme values"),
 "C18_2": ("analyze_accumulator negative extreme uses (b>0)*b", "non-zero bias, channel dominated by its negative side"),
 "C19_1": ("get_operation_count Conv2D uses the dilated kernel extent", "Conv2D with dilation_rate > 1 and kernel > 1"),
 "C19_2": ("memory_write_energy drops the forced 'sram' case for the output layer", "rd_wr_on_io=False with activations_on_memory='dram', layer feeding a model output"),
 "C20_1": ("AutoQKHyperModel: empty layer_indexes becomes None", "layer_indexes=[] / range(1,1)"),
 "C20_2": ("ForgivingFactorBits._param_size: bits hoisted out of the loop (unquantized tensor inherits previous bits)", "Q layer with quantized kernel, bias_quantizer=None, use_bias=True"),
}
for name, (what, needs) in sorted(META.items()):
  src, conf = "/tmp/seed/" + name, "/tmp/confirm/%s/confirm.json" % name
  if not os.path.exists(conf):
    print("skip (unconfirmed)", name); continue
  c = json.load(open(conf))
  if not c["confirmed"]:
    print("skip (confirmation failed)", name); continue
  dst = "/verif/seeded/" + name
  os.makedirs(dst, exist_ok=True)
  for f in ("patch.diff", "demo.py", "notes.md"):
    if os.path.exists(os.path.join(src, f)):
      shutil.copy(os.path.join(src, f), os.path.join(dst, f))
  old = json.load(open(dst + "/meta.json")) if os.path.exists(dst + "/meta.json") else {}
  meta = {"id": name, "property": name.split("_")[0], "what": what, "needs_to_manifest": needs,
          "origin": "fresh sub-agent given only the property text and its own scratch worktree",
          "confirmed_by_me": {"how": "tools/confirm_seed.sh in a scratch worktree under /tmp/confirm_wt: demo.py on the "
                              "unchanged tree, demo.py with the patch, pinned suite (BASELINE.json cmd) with the patch",
                              "demo_unpatched_rc": c["demo_unpatched_rc"], "demo_patched_rc": c["demo_patched_rc"],
                              "baseline_tests_passing_with_patch": c["baseline_tests_passing_with_patch"],
                              "baseline_tests_broken_by_patch": c["baseline_tests_broken_by_patch"]},
          "checks_run": old.get("checks_run", {})}
  json.dump(meta, open(dst + "/meta.json", "w"), indent=1)
print(len(os.listdir("/verif/seeded")), "seeds in /verif/seeded")
