--------------------------- MODULE Trace_QAdaptive ---------------------------
(* Validates recorded life cycles of real QAdaptiveActivation layers against QAdaptive.  One parameter set per run
   (CONSTANTS in the generated cfg).  Events: {t, a:"New"} starts a trace with a fresh layer; {t, a:"Call", training,
   amin, amax: what the driver fed; step, emin, emax, integer, lastq: the layer's state after the call (lastq = 0 iff
   the output was the unquantized activation)}.  A mismatch is reported with the differing fields and the trace
   continues from the observed state. *)
EXTENDS QAdaptive, Json, IOUtils, TLC
Tr == ndJsonDeserialize(IOEnv.TRACE_FILE)
VARIABLE l, st
Obs(ev) == [step |-> ev.step, emin |-> Norm(ev.emin), emax |-> Norm(ev.emax), integer |-> ev.integer, lastq |-> ev.lastq]
N(s) == [s EXCEPT !.emin = Norm(@), !.emax = Norm(@)]
\* lastq = -1: the driver could not tell from the output (every fed value already was a code)
Diff(a, b) == {f \in {"step", "emin", "emax", "integer", "lastq"} : a[f] # b[f] /\ ~(f = "lastq" /\ b[f] = -1)}
TInit == l = 1 /\ st = InitState /\ Init              \* (the module's own variables are not used by the trace run)
TNext == /\ l <= Len(Tr)
         /\ l' = l + 1 /\ UNCHANGED vars
         /\ LET ev == Tr[l] IN
            IF ev.a = "New" THEN st' = InitState
            ELSE LET want == N(Step(st, ev.training = 1, ev.amin, ev.amax))  got == Obs(ev) IN
                 /\ IF Diff(want, got) # {} THEN PrintT(<<"REJECT", ev.t, l, Diff(want, got)>>) ELSE TRUE
                 /\ st' = [got EXCEPT !.lastq = IF @ = -1 THEN want.lastq ELSE @]
TSpec == TInit /\ [][TNext]_<<l, st, vars>>
=============================================================================
