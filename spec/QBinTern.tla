----------------------------- MODULE QBinTern -----------------------------
(* binary / ternary quantizers of qkeras/quantizers.py (property C04): code alphabets, sign / threshold rules,
   grouping of elements into scale groups (scale_axis / elements_per_scale), least-squares scale, power-of-two scale.

   A tensor is a flat row-major sequence with a shape <<d1,..,dr>>.  Grouping configuration:
      sa   sequence of kept axes (0-based); <<>> = scale_axis None
      eps  sequence aligned with sa of elements_per_scale; <<>> = None *)
EXTENDS F32, FiniteSets

RECURSIVE Prod(_)
Prod(s) == IF s = <<>> THEN 1 ELSE Head(s) * Prod(Tail(s))
RECURSIVE SumSeq(_)
SumSeq(s) == IF s = <<>> THEN 0 ELSE Head(s) + SumSeq(Tail(s))

\* row-major multi-index (0-based components) of flat position k (1-based)
Stride(shape, a) == Prod(SubSeq(shape, a + 1, Len(shape)))           \* a is 1-based axis position
MultiIdx(shape, k) == [a \in 1..Len(shape) |-> ((k - 1) \div Stride(shape, a)) % shape[a]]

\* ------------------------------------------------------------ grouping (as _get_scale_mean / _get_scaling_axis do it)
\* axes that keep their own scale; the others are averaged over
KeptAxes(shape, sa) ==
  IF sa = <<-1>> THEN <<>>                            \* one scale for the whole tensor
  ELSE IF Len(shape) = 1 THEN <<0>>                        \* rank 1: no averaging at all (every element its own scale)
  ELSE IF sa = <<>> THEN <<Len(shape) - 1>>           \* channels_last default
  ELSE sa
EpsAt(shape, sa, eps, j) ==                           \* block length along the j-th kept axis
  IF Len(shape) = 1 \/ eps = <<>> THEN 1 ELSE eps[j]
GroupKey(shape, sa, eps, k) ==
  LET ka == KeptAxes(shape, sa)  mi == MultiIdx(shape, k) IN
  [j \in 1..Len(ka) |-> mi[ka[j] + 1] \div EpsAt(shape, sa, eps, j)]
Groups(shape, sa, eps) == {GroupKey(shape, sa, eps, k) : k \in 1..Prod(shape)}
Members(shape, sa, eps, key) == {k \in 1..Prod(shape) : GroupKey(shape, sa, eps, k) = key}
\* what the configuration declares
DeclaredGroupCount(shape, sa, eps) ==
  LET ka == KeptAxes(shape, sa) IN Prod([j \in 1..Len(ka) |-> shape[ka[j] + 1] \div EpsAt(shape, sa, eps, j)])
Admissible(shape, sa, eps) ==
  /\ \A j \in 1..Len(sa) : sa[j] \in 0..(Len(shape) - 1)
  /\ \A i, j \in 1..Len(sa) : i < j => sa[i] < sa[j]
  /\ (eps # <<>> => Len(eps) = Len(sa) /\ sa # <<>>)
  /\ \A j \in 1..Len(eps) : eps[j] >= 1 /\ (shape[sa[j] + 1] % eps[j]) = 0

\* ------------------------------------------------------------ codes
SignCode(x) == IF x[1] < 0 THEN -1 ELSE 1                       \* zero counts as positive
BinaryCode(x, use01) == IF use01 = 1 THEN (SignCode(x) + 1) \div 2 ELSE SignCode(x)
BinaryAlphabet(use01) == IF use01 = 1 THEN {0, 1} ELSE {-1, 1}
TernaryCode(x, thr) == IF Less(DAbs(x), thr) THEN 0 ELSE Sgn(x[1])
TernaryAlphabet == {-1, 0, 1}
Denormal(x) == x[1] # 0 /\ Lead(x) < -125                       \* tf.sign flushes denormals (DenormalsFlushToZero)
=============================================================================
