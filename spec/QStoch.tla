------------------------------- MODULE QStoch -------------------------------
(* Stochastic rounding (property C08).  The only randomness is the uniform draw u in [0,1); with the draw as an
   explicit parameter the mechanism  "floor if frac(v) < u else ceil"  is a deterministic function, and unbiasedness
   is the identity  P(ceil) = P(u <= frac) = frac.
   Positions <<q, side>> are quarter steps as in QFixed; draws are given in sixteenths (u16 / 16). *)
EXTENDS QFixed

\* is frac(position) >= u ?  -> {TRUE}, {FALSE} or both when the cell does not decide it
FracGeq(p, u16) ==
  LET f == FloorDiv(p[1], 4)  r == p[1] - 4 * f IN         \* frac = (r + side*eps)/4 ; u = u16/16
  IF p[2] = 0 THEN {4 * r >= u16}
  ELSE IF 4 * r >= u16 THEN {TRUE} ELSE IF 4 * (r + 1) <= u16 THEN {FALSE} ELSE {TRUE, FALSE}
\* stochastic_round(v, precision = 1): floor(v) if frac < u else ceil(v)
StochRound(p, u16) == {IF up THEN CeilQ(p[1], p[2]) ELSE FloorQ(p[1], p[2]) : up \in FracGeq(p, u16)}

\* design: the code's pipelines with stochastic rounding in the training phase (round, then clip)
DesignStoch(c, p, u16) ==
  CASE c.cls = "bits" -> {4 * ClipI(v, c.kn * (-M(c) + c.sym), M(c) - 1) : v \in StochRound(p, u16)}
    [] c.cls = "linear" ->
         LET cmin == c.kn * (-M(c) + c.sym)   cmax == M(c) - 1 IN
         IF p[1] < 4 * cmin THEN {4 * cmin}
         ELSE IF p[1] > 4 * cmax \/ (p[1] = 4 * cmax /\ p[2] > 0) THEN {4 * cmax}
         ELSE {4 * v : v \in StochRound(p, u16)}
    [] c.cls = "relu" ->
         LET pos == {4 * ClipI(v, 0, M(c) - 1) : v \in StochRound(p, u16)}
             neg == IF c.sl = 0 THEN {0}
                    ELSE LET ps == ScalePos(p, c.sl) IN
                         {Max(Min(4 * v, 0), -((4 * M(c)) \div Pow2(c.sl))) : v \in StochRound(ps, u16)}
         IN {a + b : a \in pos, b \in neg}
    [] c.cls = "tanh" -> {4 * ClipI(v, -M(c) + c.sym, M(c) - 1) : v \in StochRound(p, u16)}
    [] c.cls = "sigmoid" -> {4 * ClipI(v, c.sym, M(c) - 1) : v \in StochRound(p, u16)}

\* properties
ClippedPos(c, p) ==                      \* the (clipped) input the statement talks about, as a position
  LET s == SurrogatePos(c, p) IN
  IF s[1] < 4 * LoCode(c) THEN <<4 * LoCode(c), 0>> ELSE IF s[1] >= 4 * HiCode(c) THEN <<4 * HiCode(c), 0>> ELSE s
PropAdjacent(c, p, c4) == LET s == ClippedPos(c, p) IN
  (c4 % 4) = 0 /\ (c4 \div 4) \in {FloorQ(s[1], s[2]), CeilQ(s[1], s[2])}
PropCodesFixed(c, p, c4) == LET s == ClippedPos(c, p) IN (s[2] = 0 /\ (s[1] % 4) = 0) => c4 = s[1]
=============================================================================
