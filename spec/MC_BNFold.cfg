SPECIFICATION Spec
CONSTANTS Vals = {0, 1, 3}
          Gams = {0, 1, 2, 3}
INVARIANT FoldIsConvThenBN
