SPECIFICATION Spec
