SPECIFICATION Spec
CONSTANTS MaxLen = 4
          Names = {"k1", "k2"}
INVARIANT ParseIsPython
INVARIANT OnlyLiterals
