SPECIFICATION Spec
CONSTANTS MaxLen = 3
          Names = {"k1", "k2"}
INVARIANT ParseIsPython
INVARIANT OnlyLiterals
