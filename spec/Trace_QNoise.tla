----------------------------- MODULE Trace_QNoise -----------------------------
(* Validates recorded hook sequences of the real QNoiseScheduler (replayed TLC behaviours and real model.fit runs)
   against QNoise.  Events:
     {t, a:"Start", sp:{start,finish,exponent,freq,type,init}, ni, f20, qs}     state before any hook
     {t, a:<hook> | "Call", ni, f20, qs}                                         state after the hook returned
   ni = callback.num_iters, f20 = round(callback.qnoise_factor * 2^20) (-1 for None),
   qs = per knob quantizer [built, is tf.Variable, round(value * 2^20)].
   A layer call between two hooks is not logged by model.fit: it is composed silently (CallAll) when needed. *)
EXTENDS QNoise, Json, IOUtils, TLC
Tr == ndJsonDeserialize(IOEnv.TRACE_FILE)
VARIABLES l, st, ok
vars == <<l, st, ok>>
Near(r, v20) == LET d == v20 * r[2] - r[1] * 1048576 IN d <= r[2] /\ -d <= r[2]
FactorMatches(r, f20) == IF r = RNone THEN f20 = -1 ELSE f20 >= 0 /\ Near(r, f20)
QMatches(q, e) == /\ (q.built <=> e[1] = 1)
                  /\ ((q.store = "var") <=> e[2] = 1)
                  /\ Near(q.val, e[3])
Matches(s, ev) == /\ s.numIters = ev.ni
                  /\ FactorMatches(s.factor, ev.f20)
                  /\ Len(s.qs) = Len(ev.qs)
                  /\ \A j \in 1..Len(s.qs) : QMatches(s.qs[j], ev.qs[j])
\* which clause fails (for the verdict line)
Why(s, ev) == IF s.numIters # ev.ni THEN "num_iters"
              ELSE IF ~FactorMatches(s.factor, ev.f20) THEN "callback_factor"
              ELSE IF Len(s.qs) # Len(ev.qs) THEN "quantizer_set"
              ELSE IF \E j \in 1..Len(s.qs) : ~Near(s.qs[j].val, ev.qs[j][3]) THEN "quantizer_factor"
              ELSE "quantizer_storage"
\* the knob value a quantizer was constructed with is read off the Start event (1 by default, 0 for a quantizer that
\* was pre-trained without quantization noise)
V0(e) == IF e[3] = 1048576 THEN ROne ELSE IF e[3] = 0 THEN RZero ELSE <<e[3], 1048576>>
Q0For(ev) == [j \in 1..Len(ev.qs) |->
                 IF ev.qs[j][1] = 1 THEN QBuild(QNew(V0(ev.qs[j]), FALSE), ev.qs[j][2] = 1) ELSE QNew(V0(ev.qs[j]), FALSE)]
Cands(s, a) == IF a = "Call" THEN {CallAll(s)}
               ELSE (IF HookEnabled(s, a) THEN {HookApply(s, a)} ELSE {})
                    \cup (IF HookEnabled(s, a) THEN {HookApply(CallAll(s), a)} ELSE {})
Dummy == SInit([start |-> 0, finish |-> 0, exponent |-> 1, freq |-> 1, type |-> "step", init |-> 0], <<>>)
Init == l = 1 /\ st = Dummy /\ ok = TRUE
Step ==
  /\ l <= Len(Tr)
  /\ l' = l + 1
  /\ LET ev == Tr[l] IN
     IF ev.a = "BigSchedule" THEN       \* long schedules (beyond the exact rational model): factors observed at increasing steps
        /\ UNCHANGED <<st, ok>>
        /\ IF \E k \in 1..Len(ev.fs) : ev.fs[k] < 0 \/ ev.fs[k] > 1048576 THEN PrintT(<<"REJECT", ev.t, l, "BigSchedule", "factor_outside_unit_interval">>)
           ELSE IF \E k \in 1..(Len(ev.fs) - 1) : ev.fs[k + 1] < ev.fs[k] THEN PrintT(<<"REJECT", ev.t, l, "BigSchedule", "factor_decreased">>)
           ELSE IF ev.fs[1] # 0 \/ ev.fs[Len(ev.fs)] # 1048576 THEN PrintT(<<"REJECT", ev.t, l, "BigSchedule", "end_points">>)
           ELSE TRUE
     ELSE IF ev.a = "Start" THEN
        LET s0 == SInit(ev.sp, Q0For(ev)) IN
        IF Matches(s0, ev) THEN st' = s0 /\ ok' = TRUE
        ELSE PrintT(<<"REJECT", ev.t, l, "Start", Why(s0, ev)>>) /\ st' = s0 /\ ok' = FALSE
     ELSE IF ~ok THEN UNCHANGED <<st, ok>>                       \* rest of a rejected trace is skipped
     ELSE LET good == {s \in Cands(st, ev.a) : Matches(s, ev)} IN
          IF good # {} THEN st' = (CHOOSE s \in good : TRUE) /\ ok' = TRUE
          ELSE /\ PrintT(<<"REJECT", ev.t, l, ev.a,
                           IF Cands(st, ev.a) = {} THEN "hook_not_enabled_in_protocol"
                           ELSE Why(CHOOSE s \in Cands(st, ev.a) : TRUE, ev)>>)
               /\ st' = st /\ ok' = FALSE
Spec == Init /\ [][Step]_vars
\* the listed invariants are evaluated on every state the real execution went through
InvApplied == ok => AppliedToAll(st)
InvEndPoints == ok => EndPoints(st)
InvInUnit == ok => InUnit(st)
NonDecreasing == [][(ok /\ ok' /\ l > 1 /\ Tr[l].a # "Start") => NonDecreasingStep(st, st')]_vars
=============================================================================
