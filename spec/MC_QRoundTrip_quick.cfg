SPECIFICATION Spec
CONSTANTS K = 1
          MaxDepth = 2
INVARIANT Stutter
INVARIANT EveryOptionPresent
