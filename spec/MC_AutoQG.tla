------------------------------ MODULE MC_AutoQG ------------------------------
(* Limit completion and indexing (AutoQ generic form) on all short limit lists over a small entry alphabet:
   Design (as the code completes and indexes) => Prop (the documented format), except for the named deviation
   RecurrentLimitIgnored. *)
EXTENDS AutoQ, TLC
VARIABLES given, default, seq, registered, role
vars == <<given, default, seq, registered, role>>
N(b) == [t |-> "n", n |-> b, l |-> <<>>]
Lst == [t |-> "l", n |-> 0, l |-> <<"b", "q4">>]
Entries == {N(2), N(4), N(8), Lst}
Table == [kernel |-> <<<<"b", 1>>, <<"t", 2>>, <<"q4", 4>>, <<"q8", 8>>>>, bias |-> <<<<"q4", 4>>, <<"q8", 8>>>>,
          activation |-> <<<<"r2", 2>>, <<"r4", 4>>, <<"r8", 8>>>>, recurrent_activation |-> <<<<"s3", 3>>, <<"s8", 8>>>>]
Lists(n) == UNION {[1..k -> Entries] : k \in 0..n}
Defaults == {<<N(a), N(b), N(c)>> : a, b, c \in {2, 4, 8}} \cup {<<N(8), N(4), N(a), N(b)>> : a, b \in {2, 4, 8}}
Roles4 == {"kernel", "bias", "pointwise_kernel", "recurrent_kernel", "recurrent_activation", "activation"}
Init == /\ seq \in BOOLEAN /\ registered \in BOOLEAN /\ default \in Defaults /\ role \in Roles4
        /\ given \in Lists(IF seq THEN 4 ELSE 3)
        \* domain of the format: a sequence class needs a 4-entry default; an unregistered key carries its full list
        /\ (seq /\ registered) => Len(default) = 4
        /\ ~registered => Len(given) = (IF seq THEN 4 ELSE 3)
        /\ (role \in {"recurrent_kernel", "recurrent_activation"}) => seq
        /\ (role = "pointwise_kernel") => ~seq
        /\ ~(seq /\ ~registered /\ Len(given) < 4)
Next == UNCHANGED vars
Spec == Init /\ [][Next]_vars
Lim == Complete(given, default, seq, registered)
CompleteLength == Len(Lim) = (IF seq THEN 4 ELSE 3)
GivenKept == \A k \in 1..Len(given) : Lim[k] = given[k]
MissingFromDefault == \A k \in (Len(given) + 1)..Len(Lim) :
                         Lim[k] = IF k = Len(Lim) THEN default[Len(default)] ELSE default[k]
DesignWithinDocumentedLimit ==
  (role # "recurrent_kernel") => DesignAllowed(Table, Lim, seq, role) = PropAllowed(Table, Lim, seq, role)
\* the named deviation is real: some instance separates the two readings
RecurrentLimitIgnoredIsVisible ==
  ~(role = "recurrent_kernel" /\ given = <<N(4), N(8), N(2), N(4)>> /\ DesignAllowed(Table, Lim, seq, role) = PropAllowed(Table, Lim, seq, role))
=============================================================================
