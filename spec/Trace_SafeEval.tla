---------------------------- MODULE Trace_SafeEval ----------------------------
(* Judges recorded parses (C10, parse direction).  Events:
     {k:"parse", toks:[{kw,kind}], got:{status,args,kwargs}, py:{status,args,kwargs}}
        got = what qkeras.safe_eval passed to a recording callable, py = what Python's own evaluation of the same
        call expression passed; args = [[type, canonical text]], kwargs = [[name, type, canonical text]]
     {k:"hostile", executed: 0/1}      a string that would run code if it were evaluated *)
EXTENDS SafeEval, Json, IOUtils, TLC
Tr == ndJsonDeserialize(IOEnv.TRACE_FILE)
VARIABLE i
Types(r) == [k \in 1..Len(r.args) |-> r.args[k][1]]
KwTypes(r) == [k \in 1..Len(r.kwargs) |-> <<r.kwargs[k][1], r.kwargs[k][2]>>]
ParseVerdicts(ev) ==
  LET d == DesignParse(ev.toks)  p == PyCall(ev.toks) IN
  IF ~InDom(ev.toks) THEN
       (IF ev.got = ev.py THEN <<>> ELSE <<"outside_literal_domain_differs_from_python">>)
  ELSE IF ev.got.status # p.status THEN
       <<IF p.status = "SyntaxError" THEN "malformed_order_accepted" ELSE "valid_call_rejected">>
  ELSE IF p.status = "SyntaxError" THEN <<>>
  ELSE (IF Types(ev.got) # p.args \/ KwTypes(ev.got) # p.kwargs THEN <<"literal_typed_wrongly">> ELSE <<>>)
       \o (IF ev.got # ev.py THEN <<"arguments_differ_from_python_call">> ELSE <<>>)
Verdicts(ev) == IF ev.k = "parse" THEN ParseVerdicts(ev)
                ELSE IF ev.executed = 1 THEN <<"string_executed_code">> ELSE <<>>
Init == i = 1
Next == /\ i <= Len(Tr)
        /\ LET v == Verdicts(Tr[i]) IN IF v # <<>> THEN PrintT(<<"REJECT", i, v>>) ELSE TRUE
        /\ i' = i + 1
Spec == Init /\ [][Next]_i
=============================================================================
