--------------------------- MODULE Trace_QBinTern ---------------------------
(* Judges recorded tensor calls of the real binary / ternary quantizers (property C04).
   One event per call:
     cls "binary" | "ternary"     use01 0/1      ak "none" | "const" | "auto" | "auto_po2"
     thr  threshold as float32 dyadic (ternary, constant modes)
     shape, sa, eps               grouping (QBinTern)      hasmin/minp/hasmax/maxp  po2 exponent bounds
     g     grid exponent: x[i] = n[i] * 2^g with small integers n (least-squares clauses are judged exactly on such
           data);  g = 999 marks free float32 data (code / sign / scale-shape clauses only)
     n, x, xs, y, s               flat row-major: integers, input, surrogate inside the STE (tanh(x) when alpha is None,
                                  computed by the same TF op), output, recorded scale broadcast to the input shape *)
EXTENDS QBinTern, Json, IOUtils, TLC
Tr == ndJsonDeserialize(IOEnv.TRACE_FILE)
VARIABLE i

Alphabet(ev) == IF ev.cls = "binary" THEN BinaryAlphabet(ev.use01) ELSE TernaryAlphabet
Auto(ev) == ev.ak \in {"auto", "auto_po2"}
\* codes c with  y = Ste32(xs, scale * c)  (what float32 leaves of "scale times code", DESIGN 5.2)
CodesOf(ev, k) == {c \in Alphabet(ev) : Eq(ev.y[k], Ste32(ev.xs[k], Mul32(ev.s[k], <<c, 0>>)))}
\* the code the statement prescribes, where it prescribes one
Expected(ev, k) ==
  IF ev.cls = "binary" THEN
       (IF Denormal(ev.x[k]) THEN BinaryAlphabet(ev.use01) ELSE {BinaryCode(ev.x[k], ev.use01)})
  ELSE IF ~Auto(ev) THEN (IF Denormal(ev.x[k]) THEN {0, TernaryCode(ev.x[k], ev.thr)} ELSE {TernaryCode(ev.x[k], ev.thr)})
  ELSE (IF ev.x[k][1] = 0 \/ Denormal(ev.x[k]) THEN {0, Sgn(ev.x[k][1])} ELSE {0, Sgn(ev.x[k][1])})  \* zero or the sign
N(ev) == Prod(ev.shape)
Idx(ev) == 1..N(ev)
\* with a zero scale every code explains the output: the zero code is taken then (the code is unobservable)
TheCode(ev, k) == LET cs == CodesOf(ev, k) \cap Expected(ev, k) IN
                  \* an output that is exactly 0 is read as code 0 (a scale tiny enough to be absorbed by the float32
                  \* straight-through sum would "explain" it with +-1 as well)
                  IF (ev.s[k][1] = 0 \/ ev.y[k][1] = 0) /\ 0 \in cs THEN 0 ELSE CHOOSE c \in cs : TRUE

ElementClauses(ev) ==
  IF \E k \in Idx(ev) : CodesOf(ev, k) = {} THEN <<"code_not_in_alphabet">>
  ELSE IF \E k \in Idx(ev) : CodesOf(ev, k) \cap Expected(ev, k) = {}
       THEN <<IF ev.cls = "binary" THEN "sign_mismatch"
              ELSE IF Auto(ev) THEN "sign_mismatch" ELSE "zero_iff_below_threshold">>
  ELSE <<>>

\* auto ternary: the iteration's last threshold is not observable (IterativeTernaryThreshold); per group the zero codes
\* must be the smaller magnitudes
ThresholdShaped(ev) ==
  \A a, b \in Idx(ev) :
     (GroupKey(ev.shape, ev.sa, ev.eps, a) = GroupKey(ev.shape, ev.sa, ev.eps, b)
        /\ CodesOf(ev, a) = {0} /\ 0 \notin CodesOf(ev, b)) => Less(DAbs(ev.x[a]), DAbs(ev.x[b]))

\* ---- scale clauses
ScaleNonNeg(ev) == \A k \in Idx(ev) : ev.s[k][1] >= 0
ScaleConstOnGroups(ev) ==
  \A a, b \in Idx(ev) : GroupKey(ev.shape, ev.sa, ev.eps, a) = GroupKey(ev.shape, ev.sa, ev.eps, b)
                           => Eq(ev.s[a], ev.s[b])
Rep(ev, g) == CHOOSE k \in Members(ev.shape, ev.sa, ev.eps, g) : TRUE
\* exact group sums on the integer grid:  S = sum n*q , Q = sum q*q
GS(ev, g) == SumSeq([k \in 1..N(ev) |-> IF GroupKey(ev.shape, ev.sa, ev.eps, k) = g
                                          THEN ev.n[k] * TheCode(ev, k) ELSE 0])
GQ(ev, g) == SumSeq([k \in 1..N(ev) |-> IF GroupKey(ev.shape, ev.sa, ev.eps, k) = g
                                          THEN TheCode(ev, k) * TheCode(ev, k) ELSE 0])
\* scale * Q = S * 2^g up to 2^-16 relative (float32 means and the Keras epsilon in the denominator)
LeastSquaresOK(ev, g) ==
  LET S == GS(ev, g)  Q == GQ(ev, g)  s == ev.s[Rep(ev, g)]
      lhs == Mul32(s, <<Q, 0>>)
      rhs == Norm(<<S, ev.g>>)
      d == DAbs(Sub32(lhs, rhs))
  IN IF Q = 0 THEN s[1] = 0 ELSE Leq(d, Scale2(DAbs(rhs), -16))
\* power-of-two scale: exponent e nearest to log2(S*2^g/Q) within the float32 log2 band, then clipped
Pow2ScaleOK(ev, g) ==
  LET S == GS(ev, g)  Q == GQ(ev, g)  s == Norm(ev.s[Rep(ev, g)])
      e == s[2]
      \* L^2 = S^2 * 2^(2g) / Q^2 against 2^(2e-1) and 2^(2e+1) with a band of 2^-6 on L^2
      hiA == <<S * S * 65, 2 * ev.g - 6>>     loA == <<S * S * 63, 2 * ev.g - 6>>
      near == Leq(<<Q * Q, 2 * e - 1>>, hiA) /\ Leq(loA, <<Q * Q, 2 * e + 1>>)
      lowOK == ev.hasmin = 1 /\ e = ev.minp /\ Leq(loA, <<Q * Q, 2 * e + 1>>)
      highOK == ev.hasmax = 1 /\ e = ev.maxp /\ Leq(<<Q * Q, 2 * e - 1>>, hiA)
  IN IF Q = 0 \/ S <= 0 \/ ev.g < -14 THEN TRUE ELSE near \/ lowOK \/ highOK
ScaleIsPow2(ev) == \A k \in Idx(ev) : IsPow2(ev.s[k])
ScaleInBounds(ev) == \A k \in Idx(ev) : LET e == Norm(ev.s[k])[2] IN
                        (ev.hasmin = 1 => e >= ev.minp) /\ (ev.hasmax = 1 => e <= ev.maxp)

ScaleClauses(ev) ==
  IF ~Auto(ev) THEN
      (IF \A k \in Idx(ev) : Eq(ev.s[k], ev.al) THEN <<>> ELSE <<"scale_not_the_constant">>)
  ELSE (IF ~ScaleNonNeg(ev) THEN <<"scale_negative">> ELSE <<>>)
    \o (IF ~ScaleConstOnGroups(ev) THEN <<"scale_not_constant_on_group">> ELSE <<>>)
    \o (IF ev.ak = "auto_po2" /\ ~ScaleIsPow2(ev) THEN <<"scale_not_pow2">>
        ELSE IF ev.ak = "auto_po2" /\ ~ScaleInBounds(ev) THEN <<"scale_outside_exponent_bounds">> ELSE <<>>)
    \o (IF ev.g # 999 /\ ScaleConstOnGroups(ev) /\ ElementClauses(ev) = <<>> THEN
          (IF ev.ak = "auto" /\ \E g \in Groups(ev.shape, ev.sa, ev.eps) : ~LeastSquaresOK(ev, g)
             THEN <<"scale_not_least_squares">>
           ELSE IF ev.ak = "auto_po2" /\ ScaleIsPow2(ev) /\ \E g \in Groups(ev.shape, ev.sa, ev.eps) : ~Pow2ScaleOK(ev, g)
             THEN <<"scale_not_nearest_pow2_of_least_squares">> ELSE <<>>)
        ELSE <<>>)

Verdicts(ev) == ElementClauses(ev)
                \o (IF ev.cls = "ternary" /\ Auto(ev) /\ ElementClauses(ev) = <<>> /\ ~ThresholdShaped(ev)
                    THEN <<"not_threshold_shaped">> ELSE <<>>)
                \o ScaleClauses(ev)
Init == i = 1
Next == /\ i <= Len(Tr)
        /\ LET v == Verdicts(Tr[i]) IN IF v # <<>> THEN PrintT(<<"REJECT", i, v>>) ELSE TRUE
        /\ i' = i + 1
Spec == Init /\ [][Next]_i
=============================================================================
