------------------------------ MODULE MC_QGroup ------------------------------
(* C04, combinatorial part: for every small shape and every admissible (scale_axis, elements_per_scale) the grouping
   is a partition into the declared number of equally sized groups; the lattice is handed to the driver. *)
EXTENDS QBinTern, TLC
CONSTANTS Dims, MaxRank
VARIABLES shape, sa, eps, phase
vars == <<shape, sa, eps, phase>>
Shapes == UNION {[1..r -> Dims] : r \in 1..MaxRank}
AxisSeqs(r) == {<<>>} \cup {<<a>> : a \in 0..(r - 1)} \cup {<<a, b>> : a \in 0..(r - 1), b \in 0..(r - 1)}
EpsSeqs(n) == IF n = 0 THEN {<<>>} ELSE {<<>>} \cup [1..n -> {1, 2, 3}]
Init == shape \in Shapes /\ sa = <<>> /\ eps = <<>> /\ phase = 0
Choose == /\ phase = 0
          /\ sa' \in AxisSeqs(Len(shape))
          /\ eps' \in EpsSeqs(Len(sa'))
          /\ Admissible(shape, sa', eps')
          /\ phase' = 1 /\ shape' = shape
Next == Choose
Spec == Init /\ [][Next]_vars
N == Prod(shape)
IsPartition == /\ UNION {Members(shape, sa, eps, g) : g \in Groups(shape, sa, eps)} = 1..N
               /\ \A g, h \in Groups(shape, sa, eps) :
                     g # h => Members(shape, sa, eps, g) \cap Members(shape, sa, eps, h) = {}
DeclaredCount == Cardinality(Groups(shape, sa, eps)) = DeclaredGroupCount(shape, sa, eps)
EqualSizes == \A g \in Groups(shape, sa, eps) :
                 Cardinality(Members(shape, sa, eps, g)) * DeclaredGroupCount(shape, sa, eps) = N
\* rank >= 2 default: one group per last-axis index; rank 1: singletons
DefaultIsPerChannel == (sa = <<>>) => Cardinality(Groups(shape, sa, eps)) = shape[Len(shape)]
Emit == phase = 1 => PrintT(<<"CASE", shape, sa, eps>>)
=============================================================================
