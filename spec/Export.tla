-------------------------------- MODULE Export --------------------------------
(* utils.model_save_quantized_weights as a state machine over a layer's weights (property C14).
   Abstract integer weights; a quantizer is a function on integers:
      "fixed"  nearest multiple of 4 clipped to [-28, 28]        (data-independent, idempotent)
      "po2"    sign * nearest power of two (1..16), 0 -> +1       (data-independent, idempotent)
      "auto"   scaled by the largest magnitude of the tensor      (data-dependent: may move on re-export)
   Export replaces the weights by Q(weights) once per (quantizer, weight) pair and returns the hardware view. *)
EXTENDS Integers, Sequences, FiniteSets
Abs(n) == IF n < 0 THEN -n ELSE n
Sgn1(n) == IF n < 0 THEN -1 ELSE 1
Clip(v, lo, hi) == IF v < lo THEN lo ELSE IF v > hi THEN hi ELSE v
NearestMult4(v) == LET q == (Abs(v) + 2) \div 4 IN Sgn1(v) * 4 * q
QFixed(v) == Clip(NearestMult4(v), -28, 28)
Pow2s == {1, 2, 4, 8, 16}
\* log2-nearest power of two: the geometric midpoint between p and 2p is sqrt(2) p; on integers v*v >= 2*p*p
NearestPow2(v) == LET a == Abs(v) IN
  IF a = 0 THEN 1 ELSE CHOOSE p \in Pow2s : (a * a >= (p * p) \div 2 \/ p = 1) /\ (a * a < 2 * p * p \/ p = 16) /\
                                           (\A r \in Pow2s : r > p => ~(a * a >= (r * r) \div 2 /\ a * a < 2 * r * r) \/ r = p)
QPo2(v) == Sgn1(v) * NearestPow2(v)
Q(kind, v) == IF kind = "fixed" THEN QFixed(v) ELSE QPo2(v)
QSeq(kind, w) == [k \in 1..Len(w) |-> Q(kind, w[k])]
\* hardware view of a po2 weight: (sign, exponent) with sign * 2^exponent = weight
RECURSIVE Log2(_)
Log2(p) == IF p <= 1 THEN 0 ELSE 1 + Log2(p \div 2)
HwPo2(v) == <<Sgn1(v), Log2(Abs(v))>>
=============================================================================
