--------------------------- MODULE Trace_ModelGraphX ---------------------------
(* Judges real utils.model_quantize runs on the extended alphabet and on forked topologies against ModelGraphX (C12).
   Events as in Trace_ModelGraph with result records [cls, kq, bq, rq, sq, pq, act] and dict over the event's own keys. *)
EXTENDS ModelGraphX, Json, IOUtils, TLC
Tr == ndJsonDeserialize(IOEnv.TRACE_FILE)
VARIABLE i
B(x) == x = 1
M(ev) == [k \in 1..Len(ev.model) |-> [name |-> ev.model[k].name, kind |-> ev.model[k].kind, bias |-> B(ev.model[k].bias),
                                     act |-> ev.model[k].act]]
AllKeys == {QNameX(k) : k \in OldKinds \cup NewKinds} \cup {"n1", "n2", "n3"}
D(ev) == [k \in AllKeys |-> IF k \in DOMAIN ev.dict THEN ev.dict[k] ELSE "absent"]
\* {adaptive: 1, exc, cls_ok, wts}: a Dense / Activation / Dense model converted with prefer_qadaptiveactivation (the
\* Activation becomes a QAdaptiveActivation, which owns state variables); decided by the harness, recorded here
AdaptiveVerdicts(ev) ==
  IF ev.exc = 1 THEN <<"conversion_raises">>
  ELSE (IF ev.cls_ok # 1 THEN <<"wrong_layer_class">> ELSE <<>>) \o (IF ev.wts # 1 THEN <<"weights_not_transferred">> ELSE <<>>)
Verdicts(ev) ==
  IF "adaptive" \in DOMAIN ev THEN AdaptiveVerdicts(ev) ELSE
  IF ev.exc = 1 THEN <<"conversion_raises">>
  ELSE LET want == DesignQuantizeX(D(ev), M(ev)) IN
       (IF Len(ev.res) # Len(want) \/ ev.topo # 1 THEN <<"topology_or_shapes_changed">>
        ELSE IF \E k \in 1..Len(want) : ev.res[k].cls # want[k].cls THEN <<"wrong_layer_class">>
        ELSE IF \E k \in 1..Len(want) : ev.res[k].kq # want[k].kq \/ ev.res[k].bq # want[k].bq \/ ev.res[k].rq # want[k].rq
                                        \/ ev.res[k].sq # want[k].sq \/ ev.res[k].pq # want[k].pq THEN <<"wrong_weight_quantizers">>
        ELSE IF \E k \in 1..Len(want) : ev.res[k].act # want[k].act \/ ev.res[k].ra # want[k].ra THEN <<"wrong_activation">>
        ELSE <<>>)
       \o (IF ev.src # 1 THEN <<"source_model_modified">> ELSE <<>>)
       \o (IF ev.dct # 1 THEN <<"callers_dictionary_modified">> ELSE <<>>)
       \o (IF ev.wts # 1 THEN <<"weights_not_transferred">> ELSE <<>>)
Init == i = 1
Next == /\ i <= Len(Tr)
        /\ LET v == Verdicts(Tr[i]) IN IF v # <<>> THEN PrintT(<<"REJECT", i, v>>) ELSE TRUE
        /\ i' = i + 1
Spec == Init /\ [][Next]_i
=============================================================================
