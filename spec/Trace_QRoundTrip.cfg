SPECIFICATION Spec
