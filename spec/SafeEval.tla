------------------------------- MODULE SafeEval -------------------------------
(* Quantizer strings (property C10): the argument list  "(tok, tok, name=tok, ...)"  parsed by qkeras/safe_eval.py
   against the meaning of the same call expression in Python.
   A token is [kw |-> "" | <parameter name>, kind |-> <literal kind>]; literal kinds:
      int negint float sci true false none sq dq      agree with Python (DomLiteral)
      qlist   QKeras list syntax  [1 2]                QKeras: list of numbers; Python: SyntaxError   (QKerasListSyntax)
      pylist  Python list syntax  [1,2]                Python: list; QKeras splits at the comma       (finding)
      bare    unquoted word                            Python: NameError; QKeras: word without its first/last letter *)
EXTENDS Integers, Sequences, FiniteSets

DomKinds == {"int", "negint", "float", "sci", "true", "false", "none", "sq", "dq"}
AllKinds == DomKinds \cup {"qlist", "pylist", "bare"}
\* type of the value a literal denotes
TypeOf(kind) == CASE kind \in {"int", "negint"} -> "int"
                  [] kind \in {"float", "sci"} -> "float"
                  [] kind \in {"true", "false"} -> "bool"
                  [] kind = "none" -> "none"
                  [] kind \in {"sq", "dq"} -> "str"
                  [] kind \in {"qlist", "pylist"} -> "list"
                  [] OTHER -> "name"

IsPos(t) == t.kw = ""
Positionals(toks) == SelectSeq(toks, IsPos)
Keywords(toks) == SelectSeq(toks, LAMBDA t : ~IsPos(t))
\* ---- design: GetParams (split at commas, typed literals, adjacent-pair order check)
DesignOrderError(toks) == \E k \in 2..Len(toks) : IsPos(toks[k]) /\ ~IsPos(toks[k - 1])
DesignParse(toks) ==
  IF DesignOrderError(toks) THEN [status |-> "SyntaxError", args |-> <<>>, kwargs |-> <<>>]
  ELSE [status |-> "ok",
        args |-> [k \in 1..Len(Positionals(toks)) |-> TypeOf(Positionals(toks)[k].kind)],
        kwargs |-> [k \in 1..Len(Keywords(toks)) |-> <<Keywords(toks)[k].kw, TypeOf(Keywords(toks)[k].kind)>>]]
\* ---- property: the Python call expression
PyOrderError(toks) == \E a, b \in 1..Len(toks) : a < b /\ ~IsPos(toks[a]) /\ IsPos(toks[b])
PyCall(toks) ==
  IF PyOrderError(toks) THEN [status |-> "SyntaxError", args |-> <<>>, kwargs |-> <<>>]
  ELSE [status |-> "ok",
        args |-> [k \in 1..Len(Positionals(toks)) |-> TypeOf(Positionals(toks)[k].kind)],
        kwargs |-> [k \in 1..Len(Keywords(toks)) |-> <<Keywords(toks)[k].kw, TypeOf(Keywords(toks)[k].kind)>>]]
\* keyword names are distinct (a repeated keyword is a Python SyntaxError of another sort; outside the statement)
DistinctKw(toks) == \A a, b \in 1..Len(toks) : (a # b /\ ~IsPos(toks[a]) /\ ~IsPos(toks[b])) => toks[a].kw # toks[b].kw
InDom(toks) == DistinctKw(toks) /\ \A k \in 1..Len(toks) : toks[k].kind \in DomKinds
=============================================================================
