SPECIFICATION Spec
