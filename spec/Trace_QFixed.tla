---------------------------- MODULE Trace_QFixed ----------------------------
(* Judges recorded calls of the real fixed-point quantizers against QFixed (properties C01 and C02).
   Events (ndjson, floats as exact dyadics [m,e]):
     {k:"call",  c:<cfg index>, x, y, yy, mn, mx[, s]} y = q(x), yy = q(y), mn/mx = q.min()/q.max(), s = logged real sigmoid/tanh
     {k:"range", c:<cfg index>, vals:[...]}             q.range()
   CFG_FILE holds the sequence of configuration records (QFixed format, al/ub as [m,e]). *)
EXTENDS QFixed, Json, IOUtils, TLC
Tr == ndJsonDeserialize(IOEnv.TRACE_FILE)
Cf == JsonDeserialize(IOEnv.CFG_FILE)
VARIABLE i



\* Input domain of C01/C02: |x| below 2^24 quantization steps, a step being the binary granularity of the (scaled)
\* output grid; beyond it float32 cannot evaluate x + (xq - x) exactly (DESIGN 5.2/5.3).  tanh/sigmoid: every x.
Gran(c) == IF IsSignFormat(c) THEN (IF c.cls = "bits" THEN Norm(c.al)[2] ELSE c.int - 1 + Norm(c.al)[2])
           ELSE StepE(c) + Norm(c.al)[2]
InDom(c, x) == c.cls \in {"tanh", "sigmoid"} \/ x[1] = 0 \/ Lead(x) <= 24 + Gran(c)

\* the two sign-function formats
SignValue(c) == IF c.cls = "bits" THEN Norm(c.al) ELSE Mul32(c.al, P2(c.int - 1))
SignVerdicts(c, ev) ==
  LET v == SignValue(c)
      \* TF's sign flushes denormals to zero; quantized_linear's shifted value x/scale - 0.5 is not representable
      \* below 2^-25, so such inputs sit on the tie (FlushOrAbsorbedTie)
      small == ev.x[1] # 0 /\ (Lead(ev.x) < -125 \/ (c.cls = "linear" /\ Lead(ev.x) <= Gran(c) - 24))
      okset == IF ev.x[1] = 0 \/ small THEN {v, Neg(v)} ELSE IF ev.x[1] > 0 THEN {v} ELSE {Neg(v)}
      iscode == Norm(ev.y) \in {v, Neg(v)}
      ste == {Ste32(ev.x, w) : w \in okset}
  \* (an output that is neither of the two codes is a fortiori not the nearest code: both C01 and C02 see it)
  IN (IF ~iscode THEN (IF Norm(ev.y) \in ste THEN <<"code_lost_in_float32_ste">> ELSE <<"out_of_code_range", "not_nearest">>)
      ELSE IF Norm(ev.y) \notin okset THEN <<"not_nearest">> ELSE <<>>)
     \o (IF Less(ev.y, ev.mn) \/ Less(ev.mx, ev.y) THEN <<"outside_minmax">> ELSE <<>>)
     \o (IF iscode /\ ~Eq(ev.yy, ev.y) THEN <<"not_idempotent">> ELSE <<>>)

\* real sigmoid / tanh (set_internal_sigmoid("real"), use_real_sigmoid, use_real_tanh): the transcendental value s is
\* logged from the same TF kernel; the library-wide mode feeds tanh with 2*s - 1, use_real_tanh with tanh itself
HasSig(c, v) == "sig" \in DOMAIN c /\ c.sig = v
RealMode(c) == HasSig(c, "real") \/ HasSig(c, "realflag")
PosEv(c, ev) ==
  IF HasSig(c, "real") THEN QPos(IF c.cls = "tanh" THEN Add32(Scale2(ev.s, 1), <<-1, 0>>) ELSE ev.s, StepE(c))
  ELSE IF HasSig(c, "realflag") THEN QPos(ev.s, StepE(c))
  ELSE Pos(c, ev.x)
\* the order the monotonicity clause refers to: the input, or for a logged surrogate its value (an ulp-level wiggle of
\* the kernel is not the quantizer's)
Ordered(c, a, b) == Leq(a.x, b.x) /\ (RealMode(c) => Leq(a.s, b.s))

CallVerdicts(ev) ==
  LET c == Cf[ev.c] IN
  IF IsSignFormat(c) THEN SignVerdicts(c, ev) ELSE
  LET yq == YQ(c, ev.y)
      p == PosEv(c, ev)
      grid == yq[1] /\ (yq[2] % 4) = 0
  IN (IF ~grid THEN <<"not_multiple_of_step">>
      ELSE IF (yq[2] \div 4) \notin Codes(c) THEN <<"out_of_code_range">>
      ELSE IF ~PropNearest(c, p, yq[2]) THEN <<"not_nearest">>
      ELSE IF ~PropHalfStep(c, p, yq[2]) THEN <<"error_above_half_step">>
      ELSE <<>>)
     \o (IF Less(ev.y, ev.mn) \/ Less(ev.mx, ev.y) THEN <<"outside_minmax">> ELSE <<>>)
     \o (IF IdemDom(c) /\ ~Eq(ev.yy, ev.y) THEN <<"not_idempotent">> ELSE <<>>)
     \o (IF i > 1 /\ Tr[i - 1].k = "call" /\ Tr[i - 1].c = ev.c /\ InDom(c, Tr[i - 1].x) /\ Ordered(c, Tr[i - 1], ev) /\ Less(ev.y, Tr[i - 1].y)
         THEN <<"not_monotone">> ELSE <<>>)
     \o (IF yq[1] /\ yq[2] \notin Design(c, p) THEN <<"DEV_differs_from_design">> ELSE <<>>)

RangeVerdicts(ev) ==
  LET c == Cf[ev.c]
      qs == [j \in 1..Len(ev.vals) |-> YQ(c, ev.vals[j])]
      want == IF IsSignFormat(c) THEN {-4, 4} ELSE {4 * k : k \in Codes(c)}
      scale == IF IsSignFormat(c) /\ c.cls = "linear" THEN 2 ELSE 1      \* +-half a step for 1-bit quantized_linear
  IN IF IsSignFormat(c)
     THEN (IF {Norm(ev.vals[j]) : j \in 1..Len(ev.vals)} = {SignValue(c), Neg(SignValue(c))} /\ Len(ev.vals) = 2
           THEN <<>> ELSE <<"range_not_reachable_set">>)
     ELSE IF (\A j \in 1..Len(qs) : qs[j][1]) /\ {qs[j][2] : j \in 1..Len(qs)} = want /\ Len(qs) = Cardinality(want)
          THEN <<>> ELSE <<"range_not_reachable_set">>

Verdicts(ev) == IF ev.k = "call" THEN (IF InDom(Cf[ev.c], ev.x) THEN CallVerdicts(ev) ELSE <<"DEV_outside_input_domain">>)
                ELSE RangeVerdicts(ev)

Init == i = 1
Next == /\ i <= Len(Tr)
        /\ LET v == Verdicts(Tr[i]) IN IF v # <<>> THEN PrintT(<<"REJECT", i, v>>) ELSE TRUE
        /\ i' = i + 1
Spec == Init /\ [][Next]_i
=============================================================================
