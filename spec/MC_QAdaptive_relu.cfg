SPECIFICATION Spec
CONSTANTS Kn = 0  Sym = 0  Bits = 4  Delay = 2  Freeze = 3
          Decay <- DecayDef   Values <- ValuesDef
CONSTRAINT Constraint
INVARIANT QuantizedFromDelayOn
INVARIANT IntegerInRange
INVARIANT RangeCovered
PROPERTY StepNeverDecreases
PROPERTY FrozenAfterDelay
