SPECIFICATION Spec
INVARIANT WithinLimits
INVARIANT GroupShares
INVARIANT UnselectedAbsent
INVARIANT SoftmaxNotQuantized
