------------------------------- MODULE MC_AutoQ -------------------------------
(* Every hyper-parameter assignment of the reference model: chosen quantizers stay within the limits, layers grouped
   by a pattern share one choice, unselected layers get no entry, softmax layers keep their activation. *)
EXTENDS AutoQ, TLC
VARIABLES hp, idx
vars == <<hp, idx>>
SlotNames == {"conv_a", "conv_b", "act", "dense_group"}
KeyOfSlot(s) == IF s = "dense_group" THEN "dense_group" ELSE RefKeyFn[s]
Slots == {<<s, r>> : s \in SlotNames, r \in {"kernel", "bias", "activation"}}
Pick(s, r) == LET o == Offered(RefTable, RefLimit, KeyOfSlot(s), r) IN IF o = {} THEN {"b"} ELSE o
RECURSIVE Assign(_, _)
\* all assignments, slot by slot
Init == /\ \E k1 \in Pick("conv_a", "kernel"), k2 \in Pick("conv_a", "bias"), k3 \in Pick("conv_a", "activation"),
              k4 \in Pick("conv_b", "kernel"), k5 \in Pick("act", "activation"),
              k6 \in Pick("dense_group", "kernel"), k7 \in Pick("dense_group", "bias") :
              hp = [s \in Slots |->
                      CASE s = <<"conv_a", "kernel">> -> k1 [] s = <<"conv_a", "bias">> -> k2 [] s = <<"conv_a", "activation">> -> k3
                        [] s = <<"conv_b", "kernel">> -> k4 [] s = <<"act", "activation">> -> k5
                        [] s = <<"dense_group", "kernel">> -> k6 [] s = <<"dense_group", "bias">> -> k7
                        [] OTHER -> "b"]
        /\ idx \in {{1, 2, 3, 4, 5}, {1, 3}, {2, 4}, {}}
Next == FALSE /\ UNCHANGED vars
Spec == Init /\ [][Next]_vars
Assign(a, b) == a
Entry(k) == DesignEntry(RefKeyFn, RefPatterns, hp, RefModel[k], k \in idx)
WithinLimits == \A k \in 1..Len(RefModel) : Entry(k) # Absent =>
                  \A r \in DOMAIN Entry(k) : PropWithinLimit(RefTable, RefLimit, RefKeyFn[RefModel[k].name], r, Entry(k)[r])
GroupShares == (Entry(4) # Absent /\ Entry(5) # Absent) => Entry(4)["kernel"] = Entry(5)["kernel"] /\ Entry(4)["bias"] = Entry(5)["bias"]
UnselectedAbsent == \A k \in 1..Len(RefModel) : k \notin idx => Entry(k) = Absent
SoftmaxNotQuantized == Entry(5) # Absent => "activation" \notin DOMAIN Entry(5)
=============================================================================
