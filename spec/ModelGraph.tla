------------------------------ MODULE ModelGraph ------------------------------
(* utils.model_quantize as a rewriting of a model description (property C12).

   A model is a sequence of layer records [name, kind, bias, act]:
      kind \in {"Dense","Conv2D","DepthwiseConv2D","Activation","ReLU","LeakyReLU","BatchNormalization"}
      bias  use_bias (weight layers)        act  activation name (weight layers and Activation)
   A quantization dictionary maps keys (layer names and "Q<class>" names) to abstract entries:
      "absent" | "empty" ({})
      "A"  {kernel/depthwise_quantizer: qA, bias_quantizer: bA}
      "B"  {kernel/depthwise_quantizer: qB, activation_quantizer: aB}
      "S"  the string aS                 (QActivation-style entries)
      "D"  {"relu": aDr, "leakyrelu": aDl}     "Dr" {"relu": aDr}     "Dl" {"leakyrelu": aDl}
      "N"  {gamma/beta/mean/variance_quantizer: qN}      (QBatchNormalization-style entries)
   The result describes each layer as [cls, kq, bq, act] with symbolic quantizer names. *)
EXTENDS Integers, Sequences, FiniteSets

WeightKinds == {"Dense", "Conv2D", "DepthwiseConv2D"}
QName(kind) == CASE kind \in WeightKinds -> "Q" \o kind
                 [] kind \in {"Activation", "ReLU", "LeakyReLU"} -> "QActivation"
                 [] kind = "BatchNormalization" -> "QBatchNormalization"
\* lookup precedence: the layer's own name, then the class entry - the name entry wins as a whole record
Lookup(dict, layer) == IF dict[layer.name] # "absent" THEN dict[layer.name] ELSE dict[QName(layer.kind)]
KernelOf(e) == IF e = "A" THEN "qA" ELSE IF e = "B" THEN "qB" ELSE "none"
BiasOf(e) == IF e = "A" THEN "bA" ELSE "none"
\* activation rewriting with activation_bits: relu/tanh/sigmoid become quantized_*(bits); everything else is kept
ByBits(act) == IF act \in {"relu", "tanh", "sigmoid"} THEN "bits:" \o act ELSE "keep:" \o act
Keep(layer) == [cls |-> layer.kind, kq |-> "none", bq |-> "none", act |-> "keep:" \o layer.act]

DesignLayer(dict, layer) ==
  LET e == Lookup(dict, layer) IN
  IF layer.kind \in WeightKinds THEN
       IF KernelOf(e) = "none" THEN Keep(layer)                         \* no kernel quantizer: left as it was
       ELSE [cls |-> "Q" \o layer.kind, kq |-> KernelOf(e), bq |-> IF layer.bias THEN BiasOf(e) ELSE "none",
             act |-> IF e = "B" THEN "aB" ELSE ByBits(layer.act)]
  ELSE IF layer.kind = "Activation" THEN
       IF e \in {"absent"} THEN Keep(layer)
       ELSE IF e = "S" THEN [cls |-> "QActivation", kq |-> "none", bq |-> "none", act |-> "aS"]
       ELSE IF e \in {"D", "Dr"} THEN (IF layer.act = "relu" THEN [cls |-> "QActivation", kq |-> "none", bq |-> "none", act |-> "aDr"]
                                      ELSE Keep(layer))
       ELSE Keep(layer)                                  \* ("Dl": a map without an entry for this activation)
  ELSE IF layer.kind \in {"ReLU", "LeakyReLU"} THEN
       IF e = "S" THEN [cls |-> "QActivation", kq |-> "none", bq |-> "none", act |-> "aS"]
       ELSE IF e = "D" \/ (e = "Dr" /\ layer.kind = "ReLU") \/ (e = "Dl" /\ layer.kind = "LeakyReLU")
            THEN [cls |-> "QActivation", kq |-> "none", bq |-> "none", act |-> IF layer.kind = "LeakyReLU" THEN "aDl" ELSE "aDr"]
       ELSE Keep(layer)                                  \* a map that lacks this layer's kind leaves the layer as it was
  ELSE \* BatchNormalization: converted iff its name or the class key is present at all
       IF dict[layer.name] # "absent" \/ dict["QBatchNormalization"] # "absent"
       THEN [cls |-> "QBatchNormalization", kq |-> IF e = "N" THEN "qN" ELSE "none", bq |-> "none", act |-> "keep:" \o layer.act]
       ELSE Keep(layer)
DesignQuantize(dict, model) == [k \in 1..Len(model) |-> DesignLayer(dict, model[k])]

\* ---- properties (C12), stated on the description only
Selected(dict, layer) == dict[layer.name] # "absent" \/ dict[QName(layer.kind)] # "absent"
PropUnselectedUnchanged(dict, model, res) ==
  \A k \in 1..Len(model) : ~Selected(dict, model[k]) => res[k] = Keep(model[k])
PropBiaslessNoBiasQuantizer(model, res) ==
  \A k \in 1..Len(model) : (model[k].kind \in WeightKinds /\ ~model[k].bias) => res[k].bq = "none"
PropNameBeatsClass(dict, model, res) ==
  \A k \in 1..Len(model) :
     (dict[model[k].name] # "absent") => res[k] = DesignLayer([dict EXCEPT ![QName(model[k].kind)] = "absent"], model[k])
PropTopologyKept(model, res) == Len(res) = Len(model)
PropClassIsCounterpart(model, res) ==
  \A k \in 1..Len(model) : res[k].cls \in {model[k].kind, QName(model[k].kind)}
=============================================================================
