SPECIFICATION Spec
CONSTANTS Vals = {0, 1, 2}
INVARIANT OutShape
INVARIANT DepthwiseIsConv
INVARIANT Identity1x1
INVARIANT CausalIsLeftPadded
INVARIANT GroupedIsBlockDiagonal
