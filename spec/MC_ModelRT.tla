------------------------------ MODULE MC_ModelRT ------------------------------
(* C13 at the specification level: rebuilding a quantized model from JSON, cloning it, or saving / reloading it (HDF5)
   is a stuttering step on (architecture, quantizer option records, weights), hence on predictions; compositions up to
   MaxDepth.  The (layer class, quantizer variant, route sequence) triples are the behaviours the driver replays. *)
EXTENDS Integers, Sequences, TLC
CONSTANTS MaxDepth
VARIABLES m, hist, orig
vars == <<m, hist, orig>>
LayerClasses == {"QDense", "QConv1D", "QConv2D", "QDepthwiseConv2D", "QSeparableConv1D", "QSeparableConv2D", "QActivation",
                 "QAdaptiveActivation", "QBatchNormalization", "QAveragePooling2D", "QGlobalAveragePooling2D",
                 "QSimpleRNN", "QLSTM", "QGRU", "QBidirectional", "QConv2DBatchnorm", "QDepthwiseConv2DBatchnorm",
                 "QScaleShift"}
Variants == {"fixed", "auto_axis", "auto_po2_bounds", "po2", "ternary_auto", "binary_axis", "explicit_none"}
Routes == {"RT_Json", "RT_Clone", "RT_H5"}
Init == m \in [cls : LayerClasses, variant : Variants] /\ hist = <<>> /\ orig = m
RT(r) == Len(hist) < MaxDepth /\ m' = m /\ hist' = Append(hist, r) /\ orig' = orig
Next == \E r \in Routes : RT(r)
Spec == Init /\ [][Next]_vars
Stutter == m = orig
ASSUME PrintT(<<"LATTICE", LayerClasses, Variants>>)
=============================================================================
