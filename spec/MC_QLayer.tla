------------------------------ MODULE MC_QLayer ------------------------------
(* Sanity theorems pinning the layer definitions of QLayer on all tiny tensors: output sizes, depthwise = grouped
   convolution with one-hot kernels, separable = depthwise then pointwise, causal = left-padded valid, 1x1 convolution
   = dense per position, pooling of ones = window area. *)
EXTENDS QLayer, TLC
CONSTANTS Vals
VARIABLES x, k, g
vars == <<x, k, g>>
Geoms == {[sh |-> s, sw |-> s, dh |-> d, dw |-> d, pad |-> p] : s \in 1..2, d \in 1..2, p \in {"valid", "same"}}
T3(h, w, c) == [1..h -> [1..w -> [1..c -> Vals]]]
Init == /\ g \in {q \in Geoms : q.sh = 1 \/ q.dh = 1}
        /\ x \in T3(1, 3, 1) \cup T3(2, 2, 1)
        /\ k \in [1..1 -> [1..2 -> [1..1 -> [1..1 -> Vals]]]]
Next == FALSE /\ UNCHANGED vars
Spec == Init /\ [][Next]_vars
OutShape == LET y == Conv2D(x, k, g) IN
              /\ Len(y) = OutSize(Len(x), 1, g.sh, g.dh, g.pad)
              /\ (Len(y) > 0 => Len(y[1]) = OutSize(Len(x[1]), 2, g.sw, g.dw, g.pad))
\* depthwise with depth multiplier 1 and one channel is the convolution itself
DepthwiseIsConv == Depthwise(x, k, g) = Conv2D(x, k, g)
\* a 1x1 kernel with weight 1 is the identity on every position that exists
Identity1x1 == LET one == <<<<<<<<1>>>>>>>>  gg == [g EXCEPT !.sh = 1, !.sw = 1] IN Conv2D(x, one, gg) = x
\* causal 1-D convolution = valid convolution on the left-padded input
CausalIsLeftPadded ==
  (Len(x) = 1 /\ g.sw = 1) =>
    LET gc == [g EXCEPT !.pad = "causal", !.sh = 1]   gv == [g EXCEPT !.pad = "valid", !.sh = 1]
        xp == <<[j \in 1..(g.dw + Len(x[1])) |-> IF j <= g.dw THEN <<0>> ELSE x[1][j - g.dw]]>>
    IN Conv2D(x, k, gc) = Conv2D(xp, k, gv)
\* a grouped convolution (2 input channels, 2 groups, 2 filters) is the ordinary one with the block-diagonal kernel
GroupedIsBlockDiagonal ==
  LET x2 == [i \in 1..Len(x) |-> [j \in 1..Len(x[1]) |-> <<x[i][j][1], k[1][1][1][1] + x[i][j][1]>>]]
      kg == [a \in 1..1 |-> [b \in 1..2 |-> <<<<k[1][b][1][1], k[1][3 - b][1][1] + 1>>>>]]          \* [1][2][1][2]
      kf == [a \in 1..1 |-> [b \in 1..2 |-> <<<<kg[a][b][1][1], 0>>, <<0, kg[a][b][1][2]>>>>]]      \* [1][2][2][2]
  IN Conv2D(x2, kg, g) = Conv2D(x2, kf, g)
=============================================================================
