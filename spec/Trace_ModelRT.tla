----------------------------- MODULE Trace_ModelRT -----------------------------
(* Validates replayed save / clone / reload behaviours of real quantized models (C13).  Events of one trace t:
     {a:"New"}   {a:"Probe", after, y:[dyadics], q:[strings]}   {a:<route>, exc: 0/1}
   y = model.predict on fixed probe inputs (exact dyadics), q = the configuration of every quantizer of every layer.
   Every route is a stuttering step on (y, q). *)
EXTENDS F32, Json, IOUtils, TLC
Tr == ndJsonDeserialize(IOEnv.TRACE_FILE)
VARIABLES l, fn, qs, have, ok
vars == <<l, fn, qs, have, ok>>
SameSeq(a, b) == Len(a) = Len(b) /\ \A k \in 1..Len(a) : Eq(a[k], b[k])
Init == l = 1 /\ fn = <<>> /\ qs = <<>> /\ have = FALSE /\ ok = TRUE
Step ==
  /\ l <= Len(Tr)
  /\ l' = l + 1
  /\ LET ev == Tr[l] IN
     CASE ev.a = "New" -> fn' = <<>> /\ qs' = <<>> /\ have' = FALSE /\ ok' = TRUE
       [] ev.a = "Probe" ->
            IF ~ok THEN UNCHANGED <<fn, qs, have, ok>>
            ELSE IF ~have THEN fn' = ev.y /\ qs' = ev.q /\ have' = TRUE /\ ok' = TRUE
            ELSE /\ UNCHANGED <<fn, qs, have>>
                 /\ IF ~SameSeq(fn, ev.y) THEN PrintT(<<"REJECT", ev.t, l, ev.after, "predictions_changed">>) /\ ok' = FALSE
                    ELSE IF qs # ev.q THEN PrintT(<<"REJECT", ev.t, l, ev.after, "quantizer_configuration_changed">>) /\ ok' = FALSE
                    ELSE ok' = TRUE
       [] OTHER ->
            /\ UNCHANGED <<fn, qs, have>>
            /\ IF ok /\ ev.exc = 1 THEN PrintT(<<"REJECT", ev.t, l, ev.a, "raises">>) /\ ok' = FALSE ELSE ok' = ok
Spec == Init /\ [][Step]_vars
=============================================================================
