SPECIFICATION Spec
CONSTANTS MaxBits = 5
          MaxInt = 2
INVARIANT Representable
INVARIANT AtMostTwoPowBits
INVARIANT AllCodesReached
INVARIANT RangeIsReachable
INVARIANT Nearest
INVARIANT HalfStep
INVARIANT Idempotent
PROPERTY Monotone
