------------------------------ MODULE QAdaptive ------------------------------
(* QAdaptiveActivation (qlayers.py) as a state machine - specification growth beyond the listed properties.

   State: the layer's self-estimated step counter, the exponential moving averages of the activation minimum and
   maximum (exact float32 values as dyadics), the integer-bit setting of the wrapped quantizer, and the noise factor
   used for the output of the last call.
   One action: Call(training, amin, amax), the call of the layer on a tensor whose activation values (after the
   relu for quantized_relu) have minimum amin and maximum amax.

   Parameters: Kn (keep_negative: 1 for quantized_bits, 0 for quantized_relu without slope), Sym (symmetric), Bits,
   Delay (quantization_delay), Freeze (ema_freeze_delay, NoFreeze = none), Decay (ema_decay, dyadic). *)
EXTENDS F32
CONSTANTS Kn, Sym, Bits, Delay, Freeze, Decay, Values
NoFreeze == 1000000
VARIABLES step, emin, emax, integer, lastq
vars == <<step, emin, emax, integer, lastq>>

\* K.moving_average_update in TF2:  x - (x - value) * (1 - momentum), every operation in float32
Ema(x, v) == Sub32(x, Mul32(Sub32(x, v), Sub32(One, Decay)))

\* _get_integer_bits with is_clipping = False (po2_rounding off), on exact values below 2^12 (float32 log2 is exact
\* enough there: the mis-rounded powers of two of F-C03-1 start at 2^15)
CeilLog2Pos(v) == \* ceil(max(log2 v, 0)) for v > 0
  LET n == Norm(v)  top == Lead(v) IN       \* 2^(top-1) <= v < 2^top
  IF top <= 0 THEN 0 ELSE IF n[1] = 1 THEN n[2] ELSE top
Unsigned == Bits - Kn
SideBits(v) ==            \* integer bits needed for magnitude v (v >= 0), before the bound check
  IF v[1] = 0 THEN 0 ELSE CeilLog2Pos(v)
MaxBits(vmax) ==
  LET v == IF Kn = 0 /\ vmax[1] < 0 THEN Zero ELSE vmax
      m == SideBits(DAbs(v))
      top == Sub32(P2(m), P2(IF m - Unsigned < 0 THEN m - Unsigned ELSE 0))        \* 2^m - 2^min(m - unsigned, 0)
  IN IF Less(top, v) THEN m + 1 ELSE m
MinBits(vmin) ==
  LET v == IF Kn = 0 /\ vmin[1] < 0 THEN Zero ELSE vmin
      m == SideBits(DAbs(v))
      bot == Neg(Sub32(P2(m), P2(IF m - Unsigned < 0 THEN m - Unsigned ELSE 0)))
  IN IF Sym = 1 /\ Less(v, bot) THEN m + 1 ELSE m
IntBits(vmin, vmax) == LET b == IF MinBits(vmin) > MaxBits(vmax) THEN MinBits(vmin) ELSE MaxBits(vmax)
                       IN IF b > Unsigned THEN Unsigned ELSE b

Init == step = -1 /\ emin = Zero /\ emax = Zero /\ integer = IntBits(Zero, Zero) /\ lastq = 1
\* as the code decides whether the averages move: with a freeze delay configured the step alone decides - the
\* training flag is overwritten (named deviation EmaMovesAtInferenceUntilFreeze)
EmaMoves(training, s) == IF Freeze # NoFreeze THEN ~(s > Freeze) ELSE training
\* the transition as a function of the state record (shared with the trace specification)
Step(s, training, amin, amax) ==
  LET n == s.step + (IF training THEN 1 ELSE 0)
      mn == IF EmaMoves(training, n) THEN Ema(s.emin, amin) ELSE s.emin
      mx == IF EmaMoves(training, n) THEN Ema(s.emax, amax) ELSE s.emax
  IN [step |-> n, emin |-> mn, emax |-> mx, integer |-> IntBits(mn, mx),
      lastq |-> IF training THEN (IF n >= Delay THEN 1 ELSE 0) ELSE 1]
State == [step |-> step, emin |-> emin, emax |-> emax, integer |-> integer, lastq |-> lastq]
InitState == [step |-> -1, emin |-> Zero, emax |-> Zero, integer |-> IntBits(Zero, Zero), lastq |-> 1]
Call(training, amin, amax) ==
  LET n == Step(State, training, amin, amax)
  IN step' = n.step /\ emin' = n.emin /\ emax' = n.emax /\ integer' = n.integer /\ lastq' = n.lastq
Next == \E training \in BOOLEAN, amin \in Values, amax \in Values :
          /\ ~Less(amax, amin) /\ (Kn = 1 \/ amin[1] >= 0)
          /\ Call(training, amin, amax)
Spec == Init /\ [][Next]_vars

\* ---- properties (my reading of the class documentation; not among the listed properties)
StepNeverDecreases == [][step' >= step]_vars
QuantizedFromDelayOn == lastq = 0 => step < Delay                         \* unquantized output only before the delay
IntegerInRange == integer >= 0 /\ integer <= Unsigned
FrozenAfterDelay == [][(Freeze # NoFreeze /\ step > Freeze) => UNCHANGED <<emin, emax>>]_vars
RangeCovered ==  \* the format chosen for the averaged range holds that range (unless capped by the bit budget)
  integer < Unsigned => (~Less(P2(integer), emax) /\ ~Less(emin, Neg(P2(integer))))
\* what the documentation suggests and the code does not do: inference leaves the averages alone
InferenceLeavesAveragesAlone == [][(step' = step) => UNCHANGED <<emin, emax>>]_vars
=============================================================================
