------------------------------ MODULE Trace_Export ------------------------------
(* Judges real utils.model_save_quantized_weights runs (C14).  Events:
   kind "role": one (quantizer, weight) pair of one layer
        qkind "fixed" | "po2" | "relu_po2" | "auto_po2" | "other";  bits, kn
        w1  weights stored in the layer after the export          qw  a fresh identical quantizer applied ONCE to the
        hw  the dictionary's "weights" entry                          weights the layer held before the export
        sg  the "signs" entry (po2)      sc  the "scales" entry broadcast to the weight shape (auto_po2)
   kind "model": indep (every scale data-independent) / frozen (scales frozen with the library utility), pred (1 iff
        predictions bit-identical before / after), second (1 iff a second export changed neither weights nor entries)
   kind "bnfuse": integer-coded batch-norm parameters (BNFold exponents) and the exported bn_inv / fused_bias codes *)
EXTENDS F32, Json, IOUtils, TLC
Tr == ndJsonDeserialize(IOEnv.TRACE_FILE)
VARIABLE i
N(ev) == Len(ev.w1)
IsInt(a) == a[1] = 0 \/ Norm(a)[2] >= 0
IntOf(a) == IF a[1] = 0 THEN 0 ELSE LET n == Norm(a) IN n[1] * Pow2(n[2])
\* the statement: scale * integer = stored weight, integers inside the declared range
AutoPo2OK(ev) ==
  \A k \in 1..N(ev) : /\ Eq(Mul32(ev.sc[k], ev.hw[k]), ev.w1[k]) /\ IsInt(ev.hw[k])
                       /\ (Lead(ev.hw[k]) >= 20 \/ (IntOf(ev.hw[k]) <= Pow2(ev.bits - ev.kn) - 1 /\ IntOf(ev.hw[k]) >= -ev.kn * Pow2(ev.bits - ev.kn)))
\* the recorded defect F-C14-1 exactly: weights = stored weight * 2^(bits-kn) / 2^integer and
\* scales = quantizer.scale * 2^integer / 2^(bits-kn)  (so scales*weights = quantizer.scale * stored weight)
KnownScaledSplit(ev) ==
  \A k \in 1..N(ev) : /\ Eq(ev.hw[k], Scale2(ev.w1[k], ev.bits - ev.kn - ev.int))
                       /\ Eq(ev.sc[k], Scale2(ev.qs[k], ev.int - ev.bits + ev.kn))
RoleVerdicts(ev) ==
  (IF \E k \in 1..N(ev) : ~Eq(ev.w1[k], ev.qw[k]) THEN <<"stored_weight_is_not_the_quantizer_applied_once">> ELSE <<>>)
  \o (IF ev.sgbad = 1 THEN <<"signs_entry_not_aligned_with_weights">>
      ELSE IF ev.qkind \in {"po2", "relu_po2"} THEN
        (IF \E k \in 1..N(ev) : ~IsInt(ev.hw[k]) \/ (IsInt(ev.hw[k]) /\ Abs(IntOf(ev.hw[k])) < 200 /\
               ~Eq(Mul32(IF ev.qkind = "po2" THEN ev.sg[k] ELSE One, P2(IntOf(ev.hw[k]))), ev.w1[k]))
           \/ (ev.qkind = "po2" /\ \E j \in 1..N(ev) : Norm(DAbs(ev.sg[j])) # One)
         THEN <<"po2_split_does_not_rebuild_weight">> ELSE <<>>)
      ELSE IF ev.qkind = "auto_po2" /\ ~AutoPo2OK(ev) /\ KnownScaledSplit(ev) THEN <<"auto_po2_split_exports_scaled_weight_not_integer_code">>
      ELSE IF ev.qkind = "auto_po2" THEN
        (IF \E k \in 1..N(ev) : ~Eq(Mul32(ev.sc[k], ev.hw[k]), ev.w1[k]) THEN <<"auto_po2_scale_times_integer_is_not_the_weight">> ELSE <<>>)
        \o (IF \E k \in 1..N(ev) : ~IsInt(ev.hw[k]) \/ (IsInt(ev.hw[k]) /\ Lead(ev.hw[k]) < 20 /\
                  (IntOf(ev.hw[k]) > Pow2(ev.bits - ev.kn) - 1 \/ IntOf(ev.hw[k]) < -ev.kn * Pow2(ev.bits - ev.kn)))
            THEN <<"auto_po2_integer_outside_declared_range">> ELSE <<>>)
      ELSE (IF \E k \in 1..N(ev) : ~Eq(ev.hw[k], ev.w1[k]) THEN <<"dictionary_weight_differs_from_stored_weight">> ELSE <<>>))
ModelVerdicts(ev) ==
  (IF (ev.indep = 1 \/ ev.frozen = 1) /\ ev.pred # 1 THEN <<"export_changes_predictions">> ELSE <<>>)
  \o (IF (ev.indep = 1 \/ ev.frozen = 1) /\ ev.second # 1 THEN <<"second_export_changes_something">> ELSE <<>>)
  \* consumer get_model_sparsity: proportion of exact zeros among the exported weights of the weight-bearing layers
  \o (IF ev.spden > 0 /\ ev.spz # ev.zeros THEN <<"sparsity_is_not_the_share_of_zero_weights">> ELSE <<>>)
Pw(k) == 2^k
\* qinv: gamma*rsqrt(var+eps) after the batch-norm layer's inverse quantizer (= gam * 2^(2-J) codes when there is none);
\* b / beta: the QUANTIZED bias and beta; bnw_ok: the fused batch-norm layer itself was exported with quantized parameters
BnVerdicts(ev) ==
  IF ev.fusable = 0 THEN (IF ev.marked = 1 THEN <<"non_fusable_pair_marked_fused">> ELSE <<>>) ELSE
  (IF \E c \in 1..Len(ev.gam) : ev.inv[c] # ev.qinv[c] \/ ev.fb[c] # (ev.b[c] - ev.mean[c]) * ev.qinv[c] + ev.beta[c]
   THEN <<"bn_fusing_terms_are_not_the_bn_algebra">> ELSE <<>>)
  \o (IF ev.bnw_ok # 1 THEN <<"fused_bn_layer_not_quantized_by_export">> ELSE <<>>)
\* batch-norm folded layers: the entry holds the quantized FOLDED kernel / bias (decided by the harness on dyadic data), the
\* layer's variables and the predictions are not touched
FoldedVerdicts(ev) ==
  (IF ev.entry_ok # 1 THEN <<"folded_layer_entry_is_not_the_quantized_folded_weights">> ELSE <<>>)
  \o (IF ev.layer_untouched # 1 THEN <<"export_changes_predictions">> ELSE <<>>)
Verdicts(ev) == CASE ev.kind = "role" -> RoleVerdicts(ev) [] ev.kind = "model" -> ModelVerdicts(ev)
                  [] ev.kind = "folded" -> FoldedVerdicts(ev) [] OTHER -> BnVerdicts(ev)
Init == i = 1
Next == /\ i <= Len(Tr)
        /\ LET v == Verdicts(Tr[i]) IN IF v # <<>> THEN PrintT(<<"REJECT", i, v>>) ELSE TRUE
        /\ i' = i + 1
Spec == Init /\ [][Next]_i
=============================================================================
