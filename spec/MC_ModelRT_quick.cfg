SPECIFICATION Spec
CONSTANTS MaxDepth = 2
INVARIANT Stutter
