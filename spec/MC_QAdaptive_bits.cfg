SPECIFICATION Spec
CONSTANTS Kn = 1  Sym = 1  Bits = 5  Delay = 1  Freeze = 1000000
          Decay <- DecayDef   Values <- ValuesDef
CONSTRAINT Constraint
INVARIANT QuantizedFromDelayOn
INVARIANT IntegerInRange
INVARIANT RangeCovered
PROPERTY StepNeverDecreases
PROPERTY FrozenAfterDelay
PROPERTY InferenceLeavesAveragesAlone
