SPECIFICATION Spec
