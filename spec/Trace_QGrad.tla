----------------------------- MODULE Trace_QGrad -----------------------------
(* Judges recorded input-gradients (tf.GradientTape) of the real quantizers against QGrad (property C06).
   Events: {c: <cfg index>, x, g, r}    g = d q(x) / d x, r = gradient of the plain surrogate from the same TF op
   Configurations (CFG_FILE) carry  fam:
     "fixed"  QFixed record + ste, f          "po2"  [cls, hasmv, mvk, sl, ste, f]
     "one"    identity surrogate (po2 signed, constant/auto-scale binary/ternary, auto-scaled quantized_bits, bernoulli)
     "ref"    transcendental surrogate: compare with r (tanh' for unscaled binary/ternary, h-swish') *)
EXTENDS QGrad, Json, IOUtils, TLC
Tr == ndJsonDeserialize(IOEnv.TRACE_FILE)
Cf == JsonDeserialize(IOEnv.CFG_FILE)
VARIABLE i
SatOf(x) == LET a == DAbs(x) IN IF Less(a, One) THEN 0 ELSE IF Eq(a, One) THEN -1 ELSE 1

Po2Grads(c, x) ==
  IF c.cls = "po2" THEN {G1}
  ELSE LET sl == IF c.sl = 0 THEN G0 ELSE <<1, -c.sl>> IN
       IF x[1] = 0 THEN {G0, sl, G1}
       ELSE IF x[1] < 0 THEN {sl}
       ELSE IF ~c.hasmv THEN {G1}
       ELSE IF Less(x, P2(c.mvk)) THEN {G1} ELSE IF Eq(x, P2(c.mvk)) THEN {G0, G1} ELSE {G0}
Denormal(x) == x[1] # 0 /\ Lead(x) < -110   \* TF CPU kernels flush denormals (also of x/scale): such an input also counts as 0
ExpectedAt(c, ev, x) ==
  CASE c.fam = "fixed" -> PropGrad(c, Pos(c, x), SatOf(x))
    [] c.fam = "po2" -> Po2Grads(c, x)
    [] c.fam = "one" -> {G1}
    [] c.fam = "zo" -> {G1, <<0, 0>>}        \* data-dependent clip range: 1 inside, 0 in the clipped region, nothing else
    [] c.fam = "ref" -> {Norm(ev.r)}
Expected(c, ev) == ExpectedAt(c, ev, ev.x) \cup (IF Denormal(ev.x) THEN ExpectedAt(c, ev, Zero) ELSE {})
\* use_ste = False: the code differentiates (1 - f) * s(x) + stop_gradient(f * q): the surrogate gradient scaled by
\* (1 - f).  That exact law is the recorded finding; anything else is an ordinary violation.
ScaledLaw(c, ev) == c.fam \in {"fixed", "po2"} /\ c.ste = 0 /\
                    Norm(ev.g) \in {Norm(Mul32(e, Sub32(G1, c.f))) : e \in Expected(c, ev)}
Verdicts(ev) == LET c == Cf[ev.c] IN
  IF Norm(ev.g) \in {Norm(e) : e \in Expected(c, ev)} THEN <<>>
  ELSE IF ScaledLaw(c, ev) THEN <<"grad_is_the_surrogate_gradient_scaled_by_one_minus_qnoise">>
  ELSE <<"grad_not_surrogate">>
Init == i = 1
Next == /\ i <= Len(Tr)
        /\ LET v == Verdicts(Tr[i]) IN IF v # <<>> THEN PrintT(<<"REJECT", i, v>>) ELSE TRUE
        /\ i' = i + 1
Spec == Init /\ [][Next]_i
=============================================================================
