SPECIFICATION Spec
