---------------------------- MODULE MC_ModelGraphX ----------------------------
(* Models of up to MaxLen layers over the NEW part of the alphabet (plus one old weight kind and one activation kind so
   that mixed models occur) x all fitting dictionaries. *)
EXTENDS ModelGraphX, TLC
CONSTANTS MaxLen
VARIABLES model, dict, phase
vars == <<model, dict, phase>>
Names == <<"n1", "n2", "n3">>
LayerAlphabet ==
  {[kind |-> k, bias |-> b, act |-> a] : k \in {"Conv1D", "Dense"} \cup SepKinds, b \in BOOLEAN, a \in {"linear", "relu"}}
  \cup {[kind |-> k, bias |-> b, act |-> "tanh"] : k \in RnnKinds, b \in BOOLEAN}
  \cup {[kind |-> k, bias |-> FALSE, act |-> "linear"] : k \in PoolKinds \cup {"ReLU"} \cup UserKinds}
Models == UNION {{[j \in 1..n |-> [name |-> Names[j], kind |-> f[j].kind, bias |-> f[j].bias, act |-> f[j].act]] :
                    f \in [1..n -> LayerAlphabet]} : n \in 1..MaxLen}
NameEntries(l) == CASE l.kind \in {"Conv1D", "Dense"} -> {"absent", "empty", "A", "B"}
                    [] l.kind \in RnnKinds -> {"absent", "empty", "A", "B", "R"}
                    [] l.kind \in SepKinds -> {"absent", "empty", "SP"}
                    [] l.kind \in PoolKinds -> {"absent", "empty", "P", "PB"}
                    [] l.kind \in UserKinds -> {"absent"}
                    [] OTHER -> {"absent", "S", "D"}
ClassKeys == {QNameX(k) : k \in {"Conv1D", "Dense", "ReLU"} \cup RnnKinds \cup SepKinds \cup PoolKinds}
Keys == ClassKeys \cup {"n1", "n2", "n3"}
NoDict == [k \in Keys |-> "absent"]
KindOfKey(key) == CHOOSE k \in {"Conv1D", "Dense", "ReLU"} \cup RnnKinds \cup SepKinds \cup PoolKinds : QNameX(k) = key
Init == model \in Models /\ dict = NoDict /\ phase = 0
\* class entries only for the classes that occur in the model (others cannot influence the result)
Choose == /\ phase = 0 /\ phase' = 1 /\ model' = model
          /\ \E e1 \in NameEntries(model[1]), c1 \in NameEntries(model[1]),
                e2 \in (IF Len(model) >= 2 THEN NameEntries(model[2]) ELSE {"absent"}),
                c2 \in (IF Len(model) >= 2 THEN NameEntries(model[2]) ELSE {"absent"}) :
                /\ (Len(model) >= 2 /\ model[2].kind = model[1].kind) => c2 = c1
                /\ dict' = [k \in Keys |->
                              IF k = "n1" THEN e1 ELSE IF k = "n2" /\ Len(model) >= 2 THEN e2
                              ELSE IF model[1].kind \notin UserKinds /\ k = QNameX(model[1].kind) THEN c1
                              ELSE IF Len(model) >= 2 /\ model[2].kind \notin UserKinds /\ k = QNameX(model[2].kind) THEN c2
                              ELSE "absent"]
Next == Choose
Spec == Init /\ [][Next]_vars
Res == DesignQuantizeX(dict, model)
UnselectedUnchanged == PropUnselectedUnchangedX(dict, model, Res)
BiaslessNoBiasQuantizer == PropBiaslessX(model, Res)
NameBeatsClass == PropNameBeatsClassX(dict, model, Res)
ClassIsCounterpart == PropCounterpartX(model, Res)
RolesFitClass == PropRolesX(model, Res)
=============================================================================
