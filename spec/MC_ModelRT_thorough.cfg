SPECIFICATION Spec
CONSTANTS MaxDepth = 3
INVARIANT Stutter
