SPECIFICATION Spec
