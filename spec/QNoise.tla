------------------------------- MODULE QNoise -------------------------------
(* Quantization-noise knob (property C07): the qnoise_factor of a quantizer object (python float or tf.Variable
   storage, BaseQuantizer.build / update_qnoise_factor) and the QNoiseScheduler callback that drives it over the Keras
   callback protocol.  Factors are rationals <<num, den>>, den > 0;  None is <<-1, 1>>.

   One quantizer object:  [built, uv, store, val]
        built  build() has run            uv     use_variables attribute
        store  "float" | "var"           val    the value a call would use
   Scheduler:  sp = [start, finish, exponent, freq, type, init],  numIters, factor, discovered, pc (protocol phase). *)
EXTENDS Integers, Sequences, FiniteSets

RECURSIVE IPow(_, _)
IPow(b, k) == IF k = 0 THEN 1 ELSE b * IPow(b, k - 1)
RLeq(a, b) == a[1] * b[2] <= b[1] * a[2]
REq(a, b) == a[1] * b[2] = b[1] * a[2]
RZero == <<0, 1>>
ROne == <<1, 1>>
RNone == <<-1, 1>>

\* ---------------------------------------------------------------- quantizer object
QNew(f0, uv) == [built |-> FALSE, uv |-> uv, store |-> "float", val |-> f0]
\* build(use_variables): a float-backed value becomes a tf.Variable initialised with the current value
QBuild(q, useVars) == [q EXCEPT !.built = TRUE, !.store = IF useVars THEN "var" ELSE q.store]
\* first call builds with the object's own use_variables attribute
QCall(q) == IF q.built THEN q ELSE QBuild(q, q.uv)
\* update_qnoise_factor: assign on a Variable, rebinding of the float otherwise; the value is f either way
QUpdate(q, f) == [q EXCEPT !.val = f]

\* ---------------------------------------------------------------- scheduler
Sched(sp, s) == IF s < sp.start THEN RZero
                ELSE IF s <= sp.finish /\ sp.start # sp.finish
                     THEN LET d == sp.finish - sp.start   n == sp.finish - s
                          IN <<IPow(d, sp.exponent) - IPow(n, sp.exponent), IPow(d, sp.exponent)>>
                ELSE ROne
\* whole state as one record so that the same functions serve model checking and trace validation
\* st = [sp, numIters, factor, discovered, pc, qs (sequence of quantizer objects), lastUpd]
SInit(sp, qs) == [sp |-> sp, numIters |-> 0, factor |-> RNone, discovered |-> FALSE, pc |-> "idle", qs |-> qs,
                  lastUpd |-> -1]
\* set_quantizers(): use_variables on, float-backed built quantizers are rebuilt with Variables, factor 0
Discover(st) ==
  [st EXCEPT !.discovered = TRUE, !.factor = RZero,
             !.qs = [i \in 1..Len(st.qs) |->
                       LET q == [st.qs[i] EXCEPT !.uv = TRUE]
                           r == IF q.built /\ q.store = "float" THEN QBuild(q, TRUE) ELSE q
                       IN QUpdate(r, RZero)]]
\* update_qnoise_factor(freq): evaluated every call, applied every update_freq-th step; num_iters always advances
Update(st) ==
  LET s == st.sp.init + st.numIters IN
  IF (s % st.sp.freq) = 0
  THEN [st EXCEPT !.numIters = @ + 1, !.factor = Sched(st.sp, s), !.lastUpd = s,
                  !.qs = [i \in 1..Len(st.qs) |-> QUpdate(st.qs[i], Sched(st.sp, s))]]
  ELSE [st EXCEPT !.numIters = @ + 1]
Hooks == {"TrainBegin", "EpochBegin", "BatchBegin", "EpochEnd", "TrainEnd"}
HookEnabled(st, h) ==
  CASE h = "TrainBegin" -> st.pc = "idle"
    [] h = "EpochBegin" -> st.pc = "epoch"
    [] h = "BatchBegin" -> st.pc = "batch"
    [] h = "EpochEnd" -> st.pc = "batch"
    [] h = "TrainEnd" -> st.pc = "epoch"
HookApply(st, h) ==
  CASE h = "TrainBegin" -> [(IF st.discovered THEN st ELSE Discover(st)) EXCEPT !.pc = "epoch"]
    [] h = "EpochBegin" -> [(IF st.sp.type = "epoch" THEN Update(st) ELSE st) EXCEPT !.pc = "batch"]
    [] h = "BatchBegin" -> (IF st.sp.type = "step" THEN Update(st) ELSE st)
    [] h = "EpochEnd" -> [st EXCEPT !.pc = "epoch"]
    [] h = "TrainEnd" -> [st EXCEPT !.pc = "idle"]
\* a layer call between hooks builds the not yet built quantizers
CallAll(st) == [st EXCEPT !.qs = [i \in 1..Len(st.qs) |-> QCall(st.qs[i])]]

\* ---------------------------------------------------------------- properties (C07, scheduler part)
AppliedToAll(st) == st.discovered => \A i \in 1..Len(st.qs) : REq(st.qs[i].val, st.factor)
EndPoints(st) == st.lastUpd >= 0 => /\ (st.lastUpd < st.sp.start => REq(st.factor, RZero))
                                    /\ (st.lastUpd >= st.sp.finish => REq(st.factor, ROne))
InUnit(st) == st.discovered => RLeq(RZero, st.factor) /\ RLeq(st.factor, ROne)
NonDecreasingStep(st, st2) == st.discovered => RLeq(st.factor, st2.factor)
VariableBacked(st) == st.discovered => \A i \in 1..Len(st.qs) : st.qs[i].built => st.qs[i].store = "var"
=============================================================================
