SPECIFICATION Spec
CONSTANTS Vals <- ValsDef
          MaxExports = 3
INVARIANT AppliedOnce
INVARIANT Po2SplitRebuilds
PROPERTY SecondExportStutters
