------------------------------ MODULE Trace_AutoQG ------------------------------
(* Judges real AutoQKHyperModel.quantize_model(stub hp) runs on generic reference models (C20).  Events (kind "gtrial"):
     table    field -> sequence of <<name, bits>>                       default  the completed "default" list
     layers   [name, kind, seq, registered, key, slot, roles, selected, given]   (given: the key's raw limit list)
     calls    [slot, role, values, chosen, seq, registered, given, known_slot]   every tuner call, in order
     res      [name, cls, q]  with q: role -> quantizer name ("none" / "keep" where nothing is applied)
   The limit is completed and indexed by the documented rule (AutoQ!Complete, AutoQ!DocIdx). *)
EXTENDS AutoQ, Json, IOUtils, TLC
Tr == ndJsonDeserialize(IOEnv.TRACE_FILE)
VARIABLE i
ToSet(sq) == {sq[k] : k \in 1..Len(sq)}
Lim(ev, c) == Complete(c.given, [k \in 1..Len(ev.default) |-> [t |-> "n", n |-> ev.default[k], l |-> <<>>]], c.seq = 1, c.registered = 1)
LastCall(ev, slot, role) ==
  LET ks == {k \in 1..Len(ev.calls) : ev.calls[k].slot = slot /\ ev.calls[k].role = role} IN
  IF ks = {} THEN 0 ELSE CHOOSE k \in ks : \A j \in ks : j <= k
AllRoles == {"kernel", "bias", "pointwise_kernel", "recurrent_kernel", "recurrent_activation", "activation"}
Unq(role) == IF role \in ActRoles THEN "keep" ELSE "none"
Verdicts(ev) ==
  (IF \E k \in 1..Len(ev.calls) : ev.calls[k].known_slot = 1 /\ Len(Lim(ev, ev.calls[k])) > 0 /\
        ~(ToSet(ev.calls[k].values) \subseteq PropAllowed(ev.table, Lim(ev, ev.calls[k]), ev.calls[k].seq = 1, ev.calls[k].role))
   THEN <<"offered_quantizer_exceeds_limit_or_is_not_in_the_role_table">> ELSE <<>>)
  \o (IF \E k \in 1..Len(ev.calls) : ev.calls[k].chosen \notin ToSet(ev.calls[k].values) THEN <<"chosen_not_offered">> ELSE <<>>)
  \o (IF \E k \in 1..Len(ev.calls) : ev.calls[k].known_slot # 1 THEN <<"tuner_asked_for_an_unknown_slot">> ELSE <<>>)
  \o (IF \E k \in 1..Len(ev.layers) :
         LET l == ev.layers[k]   r == ev.res[k]
             active == l.selected = 1 /\ l.key # "none"
             want(role) == IF active /\ role \in ToSet(l.roles)
                           THEN (IF LastCall(ev, l.slot, role) = 0 THEN "missing_choice" ELSE ev.calls[LastCall(ev, l.slot, role)].chosen)
                           ELSE Unq(role)
         IN \/ r.name # l.name
            \/ (~active /\ r.cls # l.kind)
            \/ \E role \in AllRoles :
                  \* an inline activation that is not chosen may still be rewritten by activation_bits: only chosen roles
                  \* and roles of untouched layers are compared
                  /\ (role \in ToSet(l.roles) \/ ~active \/ role \notin ActRoles)
                  /\ r.q[role] # want(role)
      THEN <<"trial_layer_is_not_what_was_chosen_within_limits">> ELSE <<>>)
  \o (IF ev.arch # 1 THEN <<"architecture_differs_from_reference">> ELSE <<>>)
  \o (IF \E k \in 1..Len(ev.calls) : ev.calls[k].known_slot = 1 /\ Len(Lim(ev, ev.calls[k])) > 0 /\
        ToSet(ev.calls[k].values) # DesignAllowed(ev.table, Lim(ev, ev.calls[k]), ev.calls[k].seq = 1, ev.calls[k].role)
      THEN <<"DEV_offered_differs_from_transcribed_rule">> ELSE <<>>)
Init == i = 1
Next == /\ i <= Len(Tr)
        /\ LET v == Verdicts(Tr[i]) IN IF v # <<>> THEN PrintT(<<"REJECT", i, v>>) ELSE TRUE
        /\ i' = i + 1
Spec == Init /\ [][Next]_i
=============================================================================
