------------------------------ MODULE MC_QAuto ------------------------------
(* C05, design level on tiny integer tensors (one scale group): the alpha="auto" rule
      scale = 2*max|x| / levels ,  code = sign(x) * min(floor(|x|/scale + 1/2), levels/2)
   with exact rationals: codes stay in the declared width, the maximum is mapped to the top code and reproduced exactly
   (not clipped), an all-zero group gives all-zero finite output, and scaling the input by 2 scales scale*code by 2. *)
EXTENDS Integers, Sequences, TLC
CONSTANTS MaxBits, Vals, Len3
VARIABLES bits, x
vars == <<bits, x>>
ValsDef == (-5..5) \cup {7, -9}
Abs(n) == IF n < 0 THEN -n ELSE n
Sgn(n) == IF n > 0 THEN 1 ELSE IF n < 0 THEN -1 ELSE 0
RECURSIVE MaxAbs(_)
MaxAbs(s) == IF s = <<>> THEN 0 ELSE LET m == MaxAbs(Tail(s)) IN IF Abs(Head(s)) > m THEN Abs(Head(s)) ELSE m
Levels(b) == (2^(b - 1) - 1) * 2
\* scale = <<2*mx, L>> (a rational); floor(|v|/scale + 1/2) = (|v|*L + mx) \div (2*mx)
Code(b, s, v) == LET mx == MaxAbs(s)  L == Levels(b) IN
                 IF mx = 0 THEN 0
                 ELSE LET r == (Abs(v) * L + mx) \div (2 * mx) IN Sgn(v) * (IF r < L \div 2 THEN r ELSE L \div 2)
\* quantized value = code * scale = code * 2*mx / L   as <<num, den>>
Value(b, s, v) == <<Code(b, s, v) * 2 * MaxAbs(s), Levels(b)>>
Init == bits \in 2..MaxBits /\ x \in [1..Len3 -> Vals]
Next == FALSE /\ UNCHANGED vars
Spec == Init /\ [][Next]_vars
InWidth == \A j \in 1..Len3 : Abs(Code(bits, x, x[j])) <= 2^(bits - 1) - 1
MaxOnTopCodeExactly == \A j \in 1..Len3 : (Abs(x[j]) = MaxAbs(x) /\ x[j] # 0) =>
                          /\ Abs(Code(bits, x, x[j])) = Levels(bits) \div 2
                          /\ Value(bits, x, x[j])[1] = x[j] * Value(bits, x, x[j])[2]
ZeroGroupFinite == MaxAbs(x) = 0 => \A j \in 1..Len3 : Code(bits, x, x[j]) = 0
Double(s) == [j \in 1..Len(s) |-> 2 * s[j]]
Equivariant == \A j \in 1..Len3 : /\ Code(bits, Double(x), 2 * x[j]) = Code(bits, x, x[j])
                                  /\ Value(bits, Double(x), 2 * x[j])[1] = 2 * Value(bits, x, x[j])[1]
HalfStepError == \A j \in 1..Len3 : MaxAbs(x) # 0 =>
     \* |x - code*scale| <= scale/2  <=>  |x*L - code*2*mx| <= mx
     Abs(x[j] * Levels(bits) - Code(bits, x, x[j]) * 2 * MaxAbs(x)) <= MaxAbs(x)
=============================================================================
