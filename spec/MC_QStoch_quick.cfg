SPECIFICATION Spec
CONSTANTS MaxBits = 4
INVARIANT Adjacent
INVARIANT CodesFixed
INVARIANT Unbiased
