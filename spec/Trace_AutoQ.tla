------------------------------ MODULE Trace_AutoQ ------------------------------
(* Judges real AutoQKHyperModel.quantize_model(stub hp) runs on the reference model of AutoQ.tla, and real
   forgiving-factor evaluations (C20).  Events:
   kind "trial": idx (selected layer positions, 1-based, within the reference model's layers),
        calls [{slot, role, values, chosen}]   every tuner call in order (symbolic quantizer names)
        res   [{name, cls, kernel, bias, activation}]  projection of the trial model ("none" / "keep" when unquantized)
   kind "delta": ref, trial (integer sizes), sign of the bonus (-1/0/1), and for consecutive events of one series
        (increasing trial size) the bonus as an exact dyadic
   kind "size": elems/bits lists of the tensors of one model and the reported total *)
EXTENDS AutoQ, F32, Json, IOUtils, TLC
Tr == ndJsonDeserialize(IOEnv.TRACE_FILE)
VARIABLE i
KeyOfSlot(s) == IF s \in DOMAIN RefPatterns THEN s ELSE RefKeyFn[s]
ToSet(sq) == {sq[k] : k \in 1..Len(sq)}
Hp(ev) == [s \in {<<ev.calls[k].slot, ev.calls[k].role>> : k \in 1..Len(ev.calls)} |->
             (CHOOSE k \in 1..Len(ev.calls) : <<ev.calls[k].slot, ev.calls[k].role>> = s /\
                                            \A j \in 1..Len(ev.calls) : <<ev.calls[j].slot, ev.calls[j].role>> = s => j <= k)]
Chosen(ev, s) == ev.calls[Hp(ev)[s]].chosen
TrialVerdicts(ev) ==
  LET idx == ToSet(ev.idx) IN
  (IF \E k \in 1..Len(ev.calls) :
        ToSet(ev.calls[k].values) # Offered(RefTable, RefLimit, KeyOfSlot(ev.calls[k].slot), ev.calls[k].role)
      THEN <<"offered_values_are_not_the_limit_filtered_table">> ELSE <<>>)
  \o (IF \E a, b \in 1..Len(ev.calls) : a < b /\ ev.calls[a].slot = ev.calls[b].slot /\ ev.calls[a].role = ev.calls[b].role
                                        /\ ev.calls[a].slot \in DOMAIN RefPatterns
      THEN <<"pattern_group_asked_twice">> ELSE <<>>)
  \o (IF \E k \in 1..Len(RefModel) :
        LET l == RefModel[k]   r == ev.res[k]   key == RefKeyFn[l.name]   slot == SlotOf(RefPatterns, key, l)
            sel == k \in idx /\ key # "none"
            want(role) == IF sel /\ role \in Roles(l) /\ <<slot, role>> \in DOMAIN Hp(ev) THEN Chosen(ev, <<slot, role>>)
                          ELSE IF sel /\ role \in Roles(l) THEN "missing_choice" ELSE "none"
        IN \/ r.name # l.name
           \/ (l.kind \in {"Conv2D", "Dense"} /\ (r.kernel # want("kernel") \/ r.bias # want("bias")))
           \/ (l.kind \in {"Conv2D", "Dense"} /\ "activation" \in Roles(l) /\ sel /\ r.activation # want("activation"))
           \/ (l.kind = "Activation" /\ r.activation # (IF sel /\ "activation" \in Roles(l) THEN want("activation") ELSE "keep"))
           \/ (~sel /\ r.cls # l.kind)
      THEN <<"trial_layer_is_not_what_was_chosen_within_limits">> ELSE <<>>)
  \o (IF \E k \in 1..Len(ev.calls) : ~PropWithinLimit(RefTable, RefLimit, KeyOfSlot(ev.calls[k].slot), ev.calls[k].role, ev.calls[k].chosen)
      THEN <<"chosen_quantizer_exceeds_limit">> ELSE <<>>)
  \o (IF ev.arch # 1 THEN <<"architecture_differs_from_reference">> ELSE <<>>)
DeltaVerdicts(ev) ==
  (IF ev.sign # DeltaSign(ev.ref, ev.trial) THEN <<"bonus_sign_wrong">> ELSE <<>>)
  \o (IF i > 1 /\ Tr[i - 1].kind = "delta" /\ Tr[i - 1].series = ev.series /\ Tr[i - 1].trial < ev.trial
         /\ ~Less(ev.delta, Tr[i - 1].delta) THEN <<"bonus_not_strictly_decreasing_in_trial_size">> ELSE <<>>)
RECURSIVE SumProd(_, _)
SumProd(a, b) == IF a = <<>> THEN 0 ELSE Head(a) * Head(b) + SumProd(Tail(a), Tail(b))
SizeVerdicts(ev) == IF ev.total = SumProd(ev.elems, ev.bits) THEN <<>> ELSE <<"size_is_not_elements_times_bits">>
\* kind "score": hm.build(hp) on a compiled reference model; hm.score(y_true, y_pred) = metric * (1 + delta) per sample
\* (m: the 0/1 accuracy of each sample; d32: delta rounded to float32; one float32 rounding of 1 + delta is allowed)
ScoreVerdicts(ev) ==
  (IF ev.sign # DeltaSign(ev.ref, ev.trial) THEN <<"bonus_sign_wrong">> ELSE <<>>)
  \o (IF \E k \in 1..Len(ev.m) :
         IF ev.m[k] = 0 THEN ev.score[k][1] # 0
         ELSE ~Less(DAbs(Add32(ev.score[k], Neg(Add32(One, ev.d32)))), <<1, -21>>)
      THEN <<"score_is_not_metric_times_one_plus_bonus">> ELSE <<>>)
  \o (IF ev.trialsize # ev.trial THEN <<"trial_size_metric_is_not_the_trial_size">> ELSE <<>>)
  \o (IF ev.refexp # ev.ref THEN <<"reference_size_is_not_stress_times_the_reference_model_size">> ELSE <<>>)
Verdicts(ev) == CASE ev.kind = "trial" -> TrialVerdicts(ev) [] ev.kind = "delta" -> DeltaVerdicts(ev)
                  [] ev.kind = "score" -> ScoreVerdicts(ev) [] OTHER -> SizeVerdicts(ev)
Init == i = 1
Next == /\ i <= Len(Tr)
        /\ LET v == Verdicts(Tr[i]) IN IF v # <<>> THEN PrintT(<<"REJECT", i, v>>) ELSE TRUE
        /\ i' = i + 1
Spec == Init /\ [][Next]_i
=============================================================================
