----------------------------- MODULE MC_SafeEval -----------------------------
(* For every token sequence up to MaxLen over the literal kinds: the parser's result = the Python call's result,
   and the parser's output alphabet consists of literal types only (nothing callable, nothing evaluated). *)
EXTENDS SafeEval, TLC
CONSTANTS MaxLen, Names
VARIABLES toks
Tok == [kw : Names \cup {""}, kind : DomKinds]
Init == toks \in UNION {[1..n -> Tok] : n \in 0..MaxLen} /\ DistinctKw(toks)
Next == FALSE /\ UNCHANGED toks
Spec == Init /\ [][Next]_toks
ParseIsPython == DesignParse(toks) = PyCall(toks)
OnlyLiterals == \A k \in 1..Len(DesignParse(toks).args) : DesignParse(toks).args[k] \in {"int", "float", "bool", "none", "str", "list"}
Emit == PrintT(<<"SEQ", toks>>)
=============================================================================
