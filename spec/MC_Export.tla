------------------------------- MODULE MC_Export -------------------------------
(* Export histories of one layer: after any number of exports the stored weights are the quantizer applied ONCE to
   the original weights (data-independent quantizers are idempotent), the second export is a stuttering step, and
   the po2 hardware split rebuilds the stored weight. *)
EXTENDS Export, TLC
CONSTANTS Vals, MaxExports
VARIABLES kind, w0, w, n
vars == <<kind, w0, w, n>>
ValsDef == -30..30
Init == kind \in {"fixed", "po2"} /\ w0 \in [1..2 -> Vals] /\ w = w0 /\ n = 0
ExportStep == n < MaxExports /\ w' = QSeq(kind, w) /\ n' = n + 1 /\ UNCHANGED <<kind, w0>>
Spec == Init /\ [][ExportStep]_vars
AppliedOnce == n >= 1 => w = QSeq(kind, w0)
SecondExportStutters == [][n >= 1 => w' = w]_vars
Po2SplitRebuilds == (kind = "po2" /\ n >= 1) => \A k \in 1..Len(w) : HwPo2(w[k])[1] * 2^(HwPo2(w[k])[2]) = w[k]
=============================================================================
