------------------------------ MODULE Trace_QModel ------------------------------
(* C18: the data types qtools reports for a concrete model bound what the model really computes.  Events:
     {k:"layer", acc, wt, bt, it : reported types (QTypes),  hasb,
      pre:[max,min] of the observed pre-activation tensor as <<c,e>>, pregran: e (all values multiples of 2^e),
      w:[max,min], b:[max,min], x:[max,min]  observed quantized weights / bias / layer input}
     {k:"estimate", size, obs: largest |output| observed for inputs inside the stated range}
   Observations come from intermediate Keras sub-models of the real model on extremal and random inputs. *)
EXTENDS QTypes, Json, IOUtils, TLC
Tr == ndJsonDeserialize(IOEnv.TRACE_FILE)
VARIABLE i
B(x) == x = 1
T(r) == [mode |-> r.mode, po2 |-> B(r.po2), bits |-> r.bits, int |-> r.int, sg |-> r.sg, hasmv |-> B(r.hasmv), mvk |-> r.mvk, bin01 |-> FALSE]
V(p) == <<p[1], p[2]>>
Holds(p, t) == Rep(V(p[1]), t) /\ Rep(V(p[2]), t)
\* floating-point reported types hold everything
IsFloat(r) == r.mode = 5
LayerVerdicts(ev) ==
  (IF ~IsFloat(ev.acc) /\ ~(Holds(ev.pre, T(ev.acc)) /\ (ev.pregran >= TypeStepE(T(ev.acc)) \/ Frac(T(ev.acc)) < 0))
     THEN <<"preactivation_not_representable">> ELSE <<>>)
  \o (IF ~IsFloat(ev.wt) /\ ~Holds(ev.w, T(ev.wt)) THEN <<"weight_outside_reported_type">> ELSE <<>>)
  \o (IF ev.hasb = 1 /\ ~IsFloat(ev.bt) /\ ~Holds(ev.b, T(ev.bt)) THEN <<"bias_outside_reported_type">> ELSE <<>>)
  \o (IF ~IsFloat(ev.it) /\ ~Holds(ev.x, T(ev.it)) THEN <<"activation_outside_reported_type">> ELSE <<>>)
  \* the published dictionary (int_bits including the sign bit) describes the same fixed-point types as the map
  \o (IF ev.jok # 1 THEN <<"published_report_differs_from_type_map">> ELSE <<>>)
\* 2^size >= obs
EstimateVerdicts(ev) ==
  LET o == V(ev.obs) IN
  IF o[1] = 0 THEN <<>>
  ELSE LET bl == BitLenN(o[1]) IN      \* obs < 2^(e + bl); obs = 2^(e+bl-1) exactly when o[1] is a power of two
       IF o[2] + bl - 1 < ev.size \/ (o[2] + bl - 1 = ev.size /\ IsPow2Nat(o[1])) THEN <<>>
       ELSE <<"estimate_below_observed_output">>
Verdicts(ev) == IF ev.k = "layer" THEN LayerVerdicts(ev) ELSE EstimateVerdicts(ev)
Init == i = 1
Next == /\ i <= Len(Tr)
        /\ LET v == Verdicts(Tr[i]) IN IF v # <<>> THEN PrintT(<<"REJECT", i, v>>) ELSE TRUE
        /\ i' = i + 1
Spec == Init /\ [][Next]_i
=============================================================================
