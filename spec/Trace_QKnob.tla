----------------------------- MODULE Trace_QKnob -----------------------------
(* Validates replayed knob life cycles on real quantizers (C07, quantizer part).  Events:
     {t, a:"New", f:[k,4], uv}      {t, a:"Build", uv}   {t, a:"Rebuild"}   {t, a:"Update", f:[k,4]}
     {t, a:"Call", ste, x, y, ys, yq, yc}
   plus after every action the projection  built, var, v20 = round(q.qnoise_factor * 2^20).
   Call: y = output of the object under test; ys / yq = outputs of fresh quantizers constructed with factor 0 / 1
   (surrogate and fully quantized value); yc = output of a fresh quantizer constructed with the current factor. *)
EXTENDS QNoise, F32, Json, IOUtils, TLC
Tr == ndJsonDeserialize(IOEnv.TRACE_FILE)
VARIABLES l, q, ok
vars == <<l, q, ok>>
Near(r, v20) == LET d == v20 * r[2] - r[1] * 1048576 IN d <= r[2] /\ -d <= r[2]
ProjOK(s, ev) == (s.built <=> ev.built = 1) /\ ((s.store = "var") <=> ev.var = 1) /\ Near(s.val, ev.v20)
Apply(s, ev) ==
  CASE ev.a = "New" -> QNew(<<ev.f[1], ev.f[2]>>, ev.uv = 1)
    [] ev.a = "Build" -> QBuild(s, ev.uv = 1)
    [] ev.a = "Rebuild" -> QBuild([s EXCEPT !.uv = TRUE], TRUE)
    [] ev.a = "Update" -> QUpdate(s, <<ev.f[1], ev.f[2]>>)
    [] ev.a = "Call" -> QCall(s)
\* factor k/4 as a dyadic
FD(r) == Norm(<<r[1], -2>>)
Interp(ev, k, f) == IF ev.ste = 1 THEN Ste32f(ev.ys[k], ev.yq[k], f) ELSE Mix32(ev.ys[k], ev.yq[k], f)
\* the documented unquantized activation: identity, or the (leaky, bounded) ReLU  [sk, sl, hasb, b in the event]
Surr(ev, k) == LET x == ev.x[k] IN
  IF ev.sk = "id" THEN Norm(x)
  ELSE IF ev.sk = "ref" THEN Norm(ev.sr[k])        \* an activation whose float32 value the harness recomputed independently
  ELSE IF x[1] < 0 THEN (IF ev.sl = 0 THEN Zero ELSE Scale2(Norm(x), -ev.sl))
  ELSE IF ev.hasb = 1 /\ Less(ev.b, x) THEN Norm(ev.b) ELSE Norm(x)
CallClauses(s, ev) ==
  LET f == FD(s.val) IN
  (IF \E k \in 1..Len(ev.x) : ~Eq(ev.ys[k], Surr(ev, k)) THEN <<"factor0_is_not_the_unquantized_activation">> ELSE <<>>)
  \o (IF \E k \in 1..Len(ev.x) : ~Eq(ev.y[k], Interp(ev, k, f)) THEN <<"not_interpolation">> ELSE <<>>)
  \o (IF \E k \in 1..Len(ev.x) : ~Eq(ev.y[k], ev.yc[k]) THEN <<"const_vs_updated_differ">> ELSE <<>>)
Init == l = 1 /\ q = QNew(ROne, FALSE) /\ ok = TRUE
Step ==
  /\ l <= Len(Tr)
  /\ l' = l + 1
  /\ LET ev == Tr[l]
         s2 == Apply(q, ev)
     IN IF ev.a # "New" /\ ~ok THEN UNCHANGED <<q, ok>>
        ELSE IF ~ProjOK(s2, ev)
             THEN PrintT(<<"REJECT", ev.t, l, ev.a, <<"knob_state_mismatch">>>>) /\ q' = s2 /\ ok' = FALSE
        ELSE /\ q' = s2 /\ ok' = TRUE
             /\ IF ev.a = "Call" /\ CallClauses(s2, ev) # <<>>
                THEN PrintT(<<"REJECT", ev.t, l, ev.a, CallClauses(s2, ev)>>) ELSE TRUE
Spec == Init /\ [][Step]_vars
=============================================================================
