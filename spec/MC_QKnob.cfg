SPECIFICATION Spec
CONSTANTS MaxSteps = 6
INVARIANT EffectiveIsLastSet
INVARIANT VarOnlyIfBuilt
