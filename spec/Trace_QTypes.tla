----------------------------- MODULE Trace_QTypes -----------------------------
(* Judges the types reported by the real qtools factories (C16, C17).  Events:
     {op:"mul", w, x: operand records, out: reported type, kind: implemented_as()}
     {op:"acc", m: reported multiplier type, n, bias (0/1), out}
     {op:"add", a, b: reported types, out}
   Operands are QKeras-level records (QTypes!OperandValues); reported types [po2, bits, int, sg, hasmv, mvk]. *)
EXTENDS QTypes, Json, IOUtils, TLC
Tr == ndJsonDeserialize(IOEnv.TRACE_FILE)
VARIABLE i
B(x) == x = 1
T(r) == [mode |-> r.mode, po2 |-> B(r.po2), bits |-> r.bits, int |-> r.int, sg |-> r.sg, hasmv |-> B(r.hasmv), mvk |-> r.mvk, bin01 |-> FALSE]
O(r) == [src |-> r.src, bits |-> r.bits, int |-> r.int, kn |-> r.kn, hasmv |-> B(r.hasmv), mvk |-> r.mvk, mvm |-> r.mvm]
MulVerdicts(ev) ==
  LET w == O(ev.w)  x == O(ev.x)  out == T(ev.out) IN
  \* (a +-1 type has no zero and no product of +-1 operands is zero)
  (IF out.mode # 3 /\ ~Rep(<<0, 0>>, out) THEN <<"zero_not_representable">> ELSE <<>>)
  \o (IF PropProducts(w, x, out) THEN <<>>
      ELSE IF PropProductsUpToNegatedMin(w, x, out) THEN <<"negated_most_negative_code_not_representable">>
      ELSE <<"product_not_representable">>)
  \o (IF ~SmallTypeWideEnough(out) THEN <<"alphabet_wider_than_reported_bits">> ELSE <<>>)
  \o (IF ev.kind # PropKind(w, x) THEN <<"wrong_implementation_kind">> ELSE <<>>)
  \o (IF out # DesignMultiplier(QT(w), QT(x)) THEN <<"DEV_differs_from_transcribed_rule">> ELSE <<>>)
AccVerdicts(ev) ==
  LET m == T(ev.m)  out == T(ev.out) IN
  (IF ~PropAccumulator(ev.n, m, out) THEN <<"sum_not_representable", "PART_" \o PartName(AccParts(ev.n, m, out))>> ELSE <<>>)
  \o (IF out # DesignAccumulator(ev.n, m, ev.bias = 1) THEN <<"DEV_differs_from_transcribed_rule">> ELSE <<>>)
AddVerdicts(ev) ==
  LET a == T(ev.a)  b == T(ev.b)  out == T(ev.out) IN
  (IF ~PropAdder(a, b, out) THEN <<"adder_sum_not_representable", "PART_" \o PartName(AdderParts(a, b, out))>> ELSE <<>>)
  \o (IF out # DesignAdderType(a, b) THEN <<"DEV_differs_from_transcribed_rule">> ELSE <<>>)
\* {op:"merge", kind \in {"Add","Maximum","Minimum","Concatenate"}, a, b: operand types, out, same: operands identical}
MergeVerdicts(ev) ==
  LET a == T(ev.a)  b == T(ev.b)  out == T(ev.out) IN
  IF ev.kind = "Add"
  THEN (IF ~PropAdder(a, b, out) THEN <<"merge_add_sum_not_representable", "PART_" \o PartName(AdderParts(a, b, out))>> ELSE <<>>)
       \o (IF out # DesignMergeAdd(a, b) THEN <<"DEV_differs_from_transcribed_rule">> ELSE <<>>)
  ELSE (IF ~PropMergeSelect(a, b, out) THEN <<"merge_output_does_not_contain_operand", "PART_" \o PartName(MergeSelectParts(a, b, out))>> ELSE <<>>)
       \o (IF ev.same = 0 /\ out # DesignMergeSelect(a, b) THEN <<"DEV_differs_from_transcribed_rule">> ELSE <<>>)
\* {op:"fmul", wf, xf: float width of the operand (0: not a float), outf: the reported type is floating point, outbits}
FloatVerdicts(ev) ==
  (IF ev.outf # 1 \/ ev.outbits < ev.wf \/ ev.outbits < ev.xf THEN <<"float_product_not_representable">> ELSE <<>>)
  \o (IF ev.kind # "mul" THEN <<"wrong_implementation_kind">> ELSE <<>>)
Verdicts(ev) == CASE ev.op = "mul" -> MulVerdicts(ev) [] ev.op = "fmul" -> FloatVerdicts(ev) [] ev.op = "acc" -> AccVerdicts(ev) [] ev.op = "add" -> AddVerdicts(ev)
                  [] ev.op = "merge" -> MergeVerdicts(ev)
                  [] ev.op = "alias" -> (IF ev.same = 1 THEN <<>> ELSE <<"earlier_result_changed_by_a_later_call">>)
Init == i = 1
Next == /\ i <= Len(Tr)
        /\ LET v == Verdicts(Tr[i]) IN IF v # <<>> THEN PrintT(<<"REJECT", i, v>>) ELSE TRUE
        /\ i' = i + 1
Spec == Init /\ [][Next]_i
=============================================================================
