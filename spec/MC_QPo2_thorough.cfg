SPECIFICATION Spec
CONSTANTS MinBits = 2
          MaxBits = 8
INVARIANT ExpInRange
INVARIANT NotAboveMaxValue
INVARIANT Log2Nearest
INVARIANT Idempotent
INVARIANT AllReached
PROPERTY Monotone
