----------------------------- MODULE Trace_F32 -----------------------------
(* Self-test of F32.tla: every event is one float32 operation computed by NumPy; TLC recomputes it exactly. *)
EXTENDS F32, Json, IOUtils, TLC
Tr == ndJsonDeserialize(IOEnv.TRACE_FILE)
VARIABLE i
Expect(ev) ==
  CASE ev.op = "add" -> Add32(ev.a, ev.b)
    [] ev.op = "mul" -> Mul32(ev.a, ev.b)
    [] ev.op = "ste" -> Ste32(ev.a, ev.b)
    [] ev.op = "stef" -> Ste32f(ev.a, ev.b, ev.c)
    [] ev.op = "mix" -> Mix32(ev.a, ev.b, ev.c)
    [] ev.op = "less" -> IF Less(ev.a, ev.b) THEN One ELSE Zero
    [] OTHER -> <<0, 12345>>
Verdict(ev) == IF Eq(Expect(ev), ev.r) THEN "ok" ELSE "mismatch"
Init == i = 1
Next == /\ i <= Len(Tr)
        /\ LET v == Verdict(Tr[i]) IN IF v # "ok" THEN PrintT(<<"REJECT", i, v, Expect(Tr[i])>>) ELSE TRUE
        /\ i' = i + 1
Spec == Init /\ [][Next]_i
=============================================================================
