SPECIFICATION Spec
CONSTANTS K = 2
          MaxDepth = 3
INVARIANT Stutter
INVARIANT EveryOptionPresent
