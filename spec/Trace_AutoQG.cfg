SPECIFICATION Spec
