SPECIFICATION Spec
INVARIANT CompleteLength
INVARIANT GivenKept
INVARIANT MissingFromDefault
INVARIANT DesignWithinDocumentedLimit
INVARIANT RecurrentLimitIgnoredIsVisible
