SPECIFICATION Spec
CONSTANTS MaxBits = 6
INVARIANT Adjacent
INVARIANT CodesFixed
INVARIANT Unbiased
