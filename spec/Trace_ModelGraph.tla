--------------------------- MODULE Trace_ModelGraph ---------------------------
(* Judges real utils.model_quantize runs against ModelGraph (C12).  Events:
     model  sequence of [name, kind, bias, act]        dict   record key -> entry (ModelGraph alphabet)
     res    sequence of [cls, kq, bq, act]              projection of the converted model (symbolic quantizer names;
                                                        "other:..." when a quantizer is none of the configured ones)
     exc (0/1), topo (names and output shapes kept), src (source model untouched), dct (caller's dictionaries
     untouched), wts (weights carried over when transfer_weights is requested) *)
EXTENDS ModelGraph, Json, IOUtils, TLC
Tr == ndJsonDeserialize(IOEnv.TRACE_FILE)
VARIABLE i
B(x) == x = 1
M(ev) == [k \in 1..Len(ev.model) |-> [name |-> ev.model[k].name, kind |-> ev.model[k].kind, bias |-> B(ev.model[k].bias),
                                     act |-> ev.model[k].act]]
Verdicts(ev) ==
  IF ev.exc = 1 THEN <<"conversion_raises">>
  ELSE LET want == DesignQuantize(ev.dict, M(ev)) IN
       (IF Len(ev.res) # Len(want) \/ ev.topo # 1 THEN <<"topology_or_shapes_changed">>
        ELSE IF \E k \in 1..Len(want) : ev.res[k].cls # want[k].cls THEN <<"wrong_layer_class">>
        ELSE IF \E k \in 1..Len(want) : ev.res[k].kq # want[k].kq \/ ev.res[k].bq # want[k].bq THEN <<"wrong_weight_quantizers">>
        ELSE IF \E k \in 1..Len(want) : ev.res[k].act # want[k].act THEN <<"wrong_activation">>
        ELSE <<>>)
       \o (IF ev.hyper # 1 THEN <<"non_quantization_hyperparameters_changed">> ELSE <<>>)
       \o (IF ev.src # 1 THEN <<"source_model_modified">> ELSE <<>>)
       \o (IF ev.dct # 1 THEN <<"callers_dictionary_modified">> ELSE <<>>)
       \o (IF ev.wts # 1 THEN <<"weights_not_transferred">> ELSE <<>>)
Init == i = 1
Next == /\ i <= Len(Tr)
        /\ LET v == Verdicts(Tr[i]) IN IF v # <<>> THEN PrintT(<<"REJECT", i, v>>) ELSE TRUE
        /\ i' = i + 1
Spec == Init /\ [][Next]_i
=============================================================================
