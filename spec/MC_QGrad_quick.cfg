SPECIFICATION Spec
CONSTANTS MaxBits = 4
INVARIANT GradIsSurrogate
INVARIANT ZeroWhereClipped
INVARIANT NotIdenticallyZero
INVARIANT QNoiseIndependent
