SPECIFICATION Spec
