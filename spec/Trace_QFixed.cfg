SPECIFICATION Spec
