SPECIFICATION Spec
CONSTANTS Dims = {1, 2, 4, 6}
          MaxRank = 4
INVARIANT IsPartition
INVARIANT DeclaredCount
INVARIANT EqualSizes
INVARIANT DefaultIsPerChannel
INVARIANT Emit
