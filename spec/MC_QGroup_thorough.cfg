SPECIFICATION Spec
CONSTANTS Dims = {1, 2, 4, 6}
          MaxRank = 3
INVARIANT IsPartition
INVARIANT DeclaredCount
INVARIANT EqualSizes
INVARIANT DefaultIsPerChannel
INVARIANT Emit
