SPECIFICATION Spec
