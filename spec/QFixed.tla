------------------------------ MODULE QFixed ------------------------------
(* Fixed-point quantizers of qkeras/quantizers.py: quantized_bits, quantized_linear, quantized_relu (plain / leaky /
   upper-bounded), quantized_tanh, quantized_sigmoid.

   Dom*    : configuration records and input positions
   Design* : the computation as the code performs it (branch structure, order of round and clip)
   Prop*   : properties C01 / C02 stated on the domain only

   A configuration is a record
     [cls, bits, int, kn, sym, sl, al, clip, ub]
       cls  \in {"bits","linear","relu","tanh","sigmoid"}
       kn   keep_negative (0/1)         sym  symmetric (0/1)
       sl   k >= 1 : negative_slope = 2^-k ;  0 : no slope
       al   constant scale as a dyadic <<m,e>>  (<<1,0>> when alpha is None)
       clip "q" : is_quantized_clip ; "ub" : relu_upper_bound = ub ; "none"
   An input position is <<q, side>> : the surrogate value is (q + side*eps)/4 steps (F32!QPos).
   Outputs are expressed in QUARTER steps (c4); a representable code has c4 % 4 = 0. *)
EXTENDS F32, FiniteSets

\* ---------------------------------------------------------------- domain
NonSignBits(c) ==
  CASE c.cls \in {"bits", "linear"} -> c.bits - c.kn
    [] c.cls = "relu" -> c.bits - (IF c.sl > 0 THEN 1 ELSE 0)
    [] c.cls = "tanh" -> c.bits - 1
    [] c.cls = "sigmoid" -> c.bits
M(c) == Pow2(NonSignBits(c))
\* exponent of the step:  step = 2^StepE
StepE(c) ==
  CASE c.cls \in {"bits", "linear", "relu"} -> c.int - NonSignBits(c)
    [] c.cls = "tanh" -> -(c.bits - 1)
    [] c.cls = "sigmoid" -> -c.bits
\* the sign-function formats (no magnitude bit): quantized_bits(1, keep_negative) and quantized_linear(1, keep_negative)
IsSignFormat(c) == c.cls \in {"bits", "linear"} /\ NonSignBits(c) = 0

\* smallest / largest code, in whole steps (Prop view: the declared format)
LoCode(c) ==
  CASE c.cls \in {"bits", "linear"} -> c.kn * (-M(c) + c.sym)
    [] c.cls = "relu" -> IF c.sl > 0 THEN -(M(c) \div Pow2(c.sl)) ELSE 0
    [] c.cls = "tanh" -> -M(c) + c.sym
    [] c.cls = "sigmoid" -> c.sym
UbCode(c) == QuotPow2(c.ub, StepE(c))                    \* relu_upper_bound in steps (Dom: a multiple of the step)
HiCode(c) == IF c.cls = "relu" /\ c.clip = "ub" THEN Min(M(c) - 1, UbCode(c)) ELSE M(c) - 1
Codes(c) == LoCode(c) .. HiCode(c)
\* leaky slope coarser than the negative range: the code emits -slope*2^integer, which is not on the grid
SlopeFitsGrid(c) == c.cls # "relu" \/ c.sl = 0 \/ Pow2(c.sl) <= M(c)

\* ---------------------------------------------------------------- design (as the code computes)
\* position of slope*x given the position of x
ScalePos(p, k) == LET d == Pow2(k)  q == FloorDiv(p[1], d) IN <<q, IF q * d = p[1] /\ p[2] = 0 THEN 0 ELSE 1>>

DesignBits(c, p) ==             \* clip(round(x*m/m_i), kn*(-m+sym), m-1)
  {4 * ClipI(v, c.kn * (-M(c) + c.sym), M(c) - 1) : v \in NearestQ(p[1], p[2])}

DesignLinear(c, p) ==           \* round(clip(x/scale, cmin, cmax))
  LET cmin == c.kn * (-M(c) + c.sym)   cmax == M(c) - 1 IN
  IF p[1] < 4 * cmin THEN {4 * cmin}
  ELSE IF p[1] > 4 * cmax \/ (p[1] = 4 * cmax /\ p[2] > 0) THEN {4 * cmax}
  ELSE {4 * v : v \in NearestQ(p[1], p[2])}

DesignRelu(c, p) ==             \* m_i*clip(round(p)/m, 0, 1-1/m) + m_i*slope*clip(round(p*slope)/(slope*m), -1, 0)
  LET pos == {4 * ClipI(v, 0, M(c) - 1) : v \in NearestQ(p[1], p[2])}
      neg == IF c.sl = 0 THEN {0}
             ELSE LET ps == ScalePos(p, c.sl)
                      lo4 == -((4 * M(c)) \div Pow2(c.sl))          \* -slope*m in quarter steps
                  IN {Max(Min(4 * v, 0), lo4) : v \in NearestQ(ps[1], ps[2])}
      sum == {a + b : a \in pos, b \in neg}
  IN IF c.clip = "ub" THEN {Min(s, 4 * UbCode(c)) : s \in sum} ELSE sum

DesignTanh(c, p) == {4 * ClipI(v, -M(c) + c.sym, M(c) - 1) : v \in NearestQ(p[1], p[2])}
DesignSigmoid(c, p) == {4 * ClipI(v, c.sym, M(c) - 1) : v \in NearestQ(p[1], p[2])}

\* p is the position of the surrogate argument: x for bits/linear/relu, the hard tanh / sigmoid value otherwise
Design(c, p) ==
  CASE c.cls = "bits" -> DesignBits(c, p)
    [] c.cls = "linear" -> DesignLinear(c, p)
    [] c.cls = "relu" -> DesignRelu(c, p)
    [] c.cls = "tanh" -> DesignTanh(c, p)
    [] c.cls = "sigmoid" -> DesignSigmoid(c, p)

\* reporters (in steps; quantized_bits/relu report 2^integer resp. max(1, .) - see TraceFixed for the concrete form)
DesignRangeCodes(c) ==
  CASE c.cls = "bits" -> -(Pow2(c.bits - 1)) .. (Pow2(c.bits - 1) - 1)          \* asserts sym = 0, kn = 1
    [] c.cls = "relu" -> 0 .. (Pow2(c.bits) - 1)                               \* asserts no slope
    [] c.cls = "linear" -> (c.kn * (-M(c) + c.sym)) .. (M(c) - 1)

\* ---------------------------------------------------------------- properties
\* surrogate position of the (leaky) ReLU: the negative side is slope*x
SurrogatePos(c, p) == IF c.cls = "relu" /\ p[1] < 0 THEN (IF c.sl = 0 THEN <<0, 0>> ELSE ScalePos(p, c.sl)) ELSE p

\* C01: output is a code of the declared format
PropRepresentable(c, c4) == (c4 % 4) = 0 /\ (c4 \div 4) \in Codes(c)
PropAtMostTwoPowBits(c) == Cardinality(Codes(c)) <= Pow2(c.bits)
\* C02: nearest code of the surrogate, clipped to the end codes; ties either way
PropNearest(c, p, c4) ==
  LET s == SurrogatePos(c, p) IN
  (c4 % 4) = 0 /\ (c4 \div 4) \in {ClipI(v, LoCode(c), HiCode(c)) : v \in NearestQ(s[1], s[2])}
\* |y - surrogate| <= step/2 inside the representable range (in quarter steps: <= 2)
PropHalfStep(c, p, c4) ==
  LET s == SurrogatePos(c, p) IN
  (s[1] >= 4 * LoCode(c) /\ (s[1] < 4 * HiCode(c) \/ (s[1] = 4 * HiCode(c) /\ s[2] = 0)))
     => (c4 - s[1] <= 2 /\ s[1] - c4 <= 2 /\ (s[1] - c4 = 2 => s[2] = 0))
\* idempotence domain: linear formats and plain ReLU
IdemDom(c) == c.cls \in {"bits", "linear"} \/ (c.cls = "relu" /\ c.sl = 0)

\* ---------------------------------------------------------------- concretisation (float32 inputs and outputs)
\* hard sigmoid exactly as float32 evaluates clip(0.5*x + 0.5, 0, 1); hard tanh = 2*sigmoid - 1
HardSig(x) == DClip(Add32(Scale2(x, -1), Half), Zero, One)
HardTanh(x) == Add32(Scale2(HardSig(x), 1), <<-1, 0>>)
\* set_internal_sigmoid("smooth"): clip(0.1875*x + 0.5, 0, 1) in float32 (one rounding in the product, one in the sum);
\* the mode is a global of the library, read when the quantizer is CALLED
SmoothSig(x) == DClip(Add32(Mul32(<<3, -4>>, x), Half), Zero, One)
SigOf(c, x) == IF "sig" \in DOMAIN c /\ c.sig = "smooth" THEN SmoothSig(x) ELSE HardSig(x)
\* argument whose position on the step grid decides the code
SurrArg(c, x) ==
  CASE c.cls = "tanh" -> Add32(Scale2(SigOf(c, x), 1), <<-1, 0>>)
    [] c.cls = "sigmoid" -> SigOf(c, x)
    [] c.cls = "linear" -> Scale2(x, -Log2Exact(c.al))        \* x / alpha, alpha a power of two (Dom)
    [] OTHER -> x
Pos(c, x) == QPos(SurrArg(c, x), StepE(c))
\* y / (alpha * step) in quarter steps: <<exact?, q4>>
YQ(c, y) ==
  LET n == Norm(y)  a == Norm(c.al)  sh == n[2] - a[2] - StepE(c) + 2 IN
  IF n[1] = 0 THEN <<TRUE, 0>>
  ELSE IF sh >= 0 THEN IF BitLen(Abs(n[1])) + sh > 27 THEN <<TRUE, Sgn(n[1]) * 4 * BigPos>>      \* beyond 2^27 quarter steps
                       ELSE LET num == n[1] * Pow2(sh) IN <<(num % a[1]) = 0, num \div a[1]>>
  ELSE <<FALSE, 0>>
=============================================================================
