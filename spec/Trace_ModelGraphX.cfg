SPECIFICATION Spec
