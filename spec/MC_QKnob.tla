------------------------------ MODULE MC_QKnob ------------------------------
(* C07, knob life cycle of ONE quantizer object under every order of New / Build / Update / Call: the factor a call
   uses is always the last value set (constructor value or latest update), whatever the storage. *)
EXTENDS QNoise, TLC
CONSTANTS MaxSteps
VARIABLES q, lastSet, n
vars == <<q, lastSet, n>>
Quarters == {<<k, 4>> : k \in 0..4}
Init == \E f0 \in Quarters, uv \in BOOLEAN : q = QNew(f0, uv) /\ lastSet = f0 /\ n = 0
Build(useVars) == n < MaxSteps /\ ~q.built /\ q' = QBuild(q, useVars) /\ UNCHANGED lastSet /\ n' = n + 1
\* what QNoiseScheduler.set_quantizers does to an already built float-backed quantizer
Rebuild == n < MaxSteps /\ q.built /\ q.store = "float" /\ q' = QBuild([q EXCEPT !.uv = TRUE], TRUE) /\ UNCHANGED lastSet /\ n' = n + 1
UserUpdate(f) == n < MaxSteps /\ q' = QUpdate(q, f) /\ lastSet' = f /\ n' = n + 1
Call == n < MaxSteps /\ q' = QCall(q) /\ UNCHANGED lastSet /\ n' = n + 1
Next == Build(TRUE) \/ Build(FALSE) \/ Rebuild \/ (\E f \in Quarters : UserUpdate(f)) \/ Call
Spec == Init /\ [][Next]_vars
EffectiveIsLastSet == REq(q.val, lastSet)
VarOnlyIfBuilt == q.store = "var" => q.built
=============================================================================
