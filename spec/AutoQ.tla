-------------------------------- MODULE AutoQ --------------------------------
(* AutoQKeras trial generation and scoring (property C20).

   Reference model: sequence of layers [name, kind, bias, act], kind \in {"Conv2D", "Dense", "Activation"}.
   Quantization tables (quantization_config): name -> bits for the roles "kernel", "bias", "activation".
   limit: maps a key (layer class name, or a name pattern = the set of layer names it matches) to the three limits
          <<kernel, bias, activation>>.
   The tuner interface is the only nondeterminism: for every (key, role) one choice among the offered names.
   hp: function  <<key, role>> -> chosen quantizer name. *)
EXTENDS Integers, Sequences, FiniteSets

RoleIdx(role) == CASE role = "kernel" -> 1 [] role = "bias" -> 2 [] role = "activation" -> 3
\* the key under which a layer is limited: the first pattern that matches its name, else its class (if listed)
KeyOf(limitKeys, patterns, layer) ==
  IF \E p \in DOMAIN patterns : layer.name \in patterns[p] THEN CHOOSE p \in DOMAIN patterns : layer.name \in patterns[p]
  ELSE IF layer.kind \in limitKeys THEN layer.kind ELSE "none"
\* offered quantizer names: the role's table filtered by the limit
Offered(table, limit, key, role) == {q \in DOMAIN table[role] : table[role][q] <= limit[key][RoleIdx(role)]}
\* roles a layer asks for
Roles(layer) ==
  IF layer.kind \in {"Conv2D", "Dense"}
  THEN {"kernel"} \cup (IF layer.bias THEN {"bias"} ELSE {}) \cup (IF layer.act \notin {"linear", "softmax"} THEN {"activation"} ELSE {})
  ELSE IF layer.act = "softmax" THEN {} ELSE {"activation"}
Absent == [x \in {"none"} |-> "none"]             \* "no dictionary entry" (a function, so that entries are comparable)
\* one tuner choice per role and per layer, except that the layers matched by one pattern share it (pattern groups)
SlotOf(patterns, key, layer) == IF key \in DOMAIN patterns THEN key ELSE layer.name
\* the per-layer dictionary a trial must use
DesignEntry(keyfn, patterns, hp, layer, selected) ==
  LET key == keyfn[layer.name] IN
  IF ~selected \/ key = "none" THEN Absent
  ELSE [r \in Roles(layer) |-> hp[<<SlotOf(patterns, key, layer), r>>]]

\* ---- the reference instance shared by MC_AutoQ and Trace_AutoQ (the driver builds exactly this model)
RefModel == <<[name |-> "conv_a", kind |-> "Conv2D", bias |-> TRUE, act |-> "relu"],
              [name |-> "conv_b", kind |-> "Conv2D", bias |-> FALSE, act |-> "linear"],
              [name |-> "act", kind |-> "Activation", bias |-> FALSE, act |-> "relu"],
              [name |-> "dense_x", kind |-> "Dense", bias |-> TRUE, act |-> "linear"],
              [name |-> "dense_y", kind |-> "Dense", bias |-> TRUE, act |-> "softmax"]>>
RefTable == [kernel |-> [b |-> 1, t |-> 2, q4 |-> 4, q8 |-> 8], bias |-> [q4 |-> 4, q8 |-> 8, p8 |-> 8],
             activation |-> [b |-> 1, r3 |-> 3, r4 |-> 4, r8 |-> 8]]
RefPatterns == [dense_group |-> {"dense_x", "dense_y"}]
RefLimit == [Conv2D |-> <<4, 8, 4>>, Activation |-> <<8, 8, 3>>, dense_group |-> <<2, 4, 8>>]
RefLimitKeys == {"Conv2D", "Activation"}
RefLayer(n) == CHOOSE l \in {RefModel[k] : k \in 1..Len(RefModel)} : l.name = n
RefKeyFn == [n \in {RefModel[k].name : k \in 1..Len(RefModel)} |-> KeyOf(RefLimitKeys, RefPatterns, RefLayer(n))]

\* ---------------------------------------------------------------------------------------------------------------
\* Generic form (any reference model, raw limit dictionary with short lists, explicit quantizer lists and "default").
\* A limit entry is [t |-> "n", n |-> bits, l |-> <<>>]  or  [t |-> "l", n |-> 0, l |-> <<names>>].
\* Documented format:  non-sequence classes [kernel, bias, activation]; sequence classes [kernel, bias, recurrent,
\* activation]; "default" (scalar d = <<d, d, d>>, or a list of 3..4) replaces missing values of REGISTERED classes.
KernelRoles == {"kernel", "pointwise_kernel", "recurrent_kernel"}
ActRoles == {"activation", "recurrent_activation"}
\* the table (field of quantization_config) a role draws from: every kernel role draws from "kernel"
TableOf(role) == IF role \in KernelRoles THEN "kernel" ELSE role
\* completion of a short list of a registered class from the default list
Complete(given, default, seq, registered) ==
  IF ~registered THEN given
  ELSE IF seq THEN (IF Len(given) < 4 THEN given \o SubSeq(default, Len(given) + 1, Len(default)) ELSE given)
  ELSE IF Len(given) < 3 THEN given \o SubSeq(default, Len(given) + 1, 2) \o <<default[Len(default)]>> ELSE given
\* position of a role's limit in a completed list (the activation limit is the last entry)
DocIdx(lim, seq, role) == CASE role \in {"kernel", "pointwise_kernel"} -> 1
                            [] role = "bias" -> 2
                            [] role = "recurrent_kernel" -> IF seq THEN 3 ELSE 1
                            [] OTHER -> Len(lim)
\* as the code indexes it: every role whose head contains "kernel" is treated as the kernel role (named deviation
\* RecurrentLimitIgnored: the documented recurrent entry is never consulted)
CodeIdx(lim, seq, role) == IF role \in KernelRoles THEN 1 ELSE IF role = "bias" THEN 2 ELSE Len(lim)
ToSetQ(sq) == {sq[k] : k \in 1..Len(sq)}
AllowedBy(tableRole, entry) == IF entry.t = "l" THEN ToSetQ(entry.l) \cap {tableRole[k][1] : k \in 1..Len(tableRole)}
                               ELSE {tableRole[k][1] : k \in {j \in 1..Len(tableRole) : tableRole[j][2] <= entry.n}}
PropAllowed(table, lim, seq, role) == AllowedBy(table[TableOf(role)], lim[DocIdx(lim, seq, role)])
DesignAllowed(table, lim, seq, role) == AllowedBy(table[TableOf(role)], lim[CodeIdx(lim, seq, role)])

\* ---- properties
PropWithinLimit(table, limit, key, role, q) == q \in DOMAIN table[role] /\ table[role][q] <= limit[key][RoleIdx(role)]
\* forgiving factor on integer sizes: sign and order (delta = c * log(ref/trial), c > 0)
DeltaSign(ref, trial) == IF trial < ref THEN 1 ELSE IF trial > ref THEN -1 ELSE 0
=============================================================================
