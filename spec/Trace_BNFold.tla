----------------------------- MODULE Trace_BNFold -----------------------------
(* Judges recorded inference calls of the real folded layers and of the fold / unfold utilities (C15).
   kind "layer": dw (depthwise 0/1), g, usebias, hasq (quantizers configured), EX/EK/... are fixed (BNFold),
        x, k, b, mean, gam, beta, J      parameters (integer codes)
        fk, fb                          get_folded_weights() at EFK / EFB
        kin                             what the kernel quantizer received (hasq = 1) at EFK
        qk, qb, EQ (shift of qb to the output scale)   recorded quantized folded kernel / bias
        y                               layer output codes at the output scale
        stock                           1 iff bitwise equal to the stock Conv -> BatchNormalization pair (hasq = 0)
   kind "model": same (1) iff predictions are bit-identical before / after  op \in {"unfold", "convert_to_folded"} *)
EXTENDS BNFold, Json, IOUtils, TLC
Tr == ndJsonDeserialize(IOEnv.TRACE_FILE)
VARIABLE i
LayerVerdicts(ev) ==
  LET dw == ev.dw = 1
      fk == FoldedKernel(ev.k, ev.gam, ev.J, dw)
      fb == FoldedBias(ev.b, ev.mean, ev.gam, ev.beta, ev.J)
  IN (IF ev.fk # fk \/ ev.fb # fb THEN <<"get_folded_weights_is_not_the_bn_algebra">> ELSE <<>>)
     \o (IF ev.hasq = 1 /\ ev.kin # fk THEN <<"quantizer_did_not_receive_the_folded_kernel">> ELSE <<>>)
     \o (IF ev.hasq = 1
         THEN (IF ev.y # AddBias3(ConvOf(ev.x, ev.qk, ev.g, dw), Scale1(ev.qb, ev.EQ))
               THEN <<"output_is_not_conv_with_quantized_folded_weights">> ELSE <<>>)
         ELSE \* no quantizers: the folded layer = convolution followed by batch normalisation (codes at EX + EFK)
              (IF ev.y # BN3(AddBias3(ConvOf(ev.x, ev.k, ev.g, dw), Scale1(ev.b, 3)), Scale1(ev.mean, 3), ev.gam,
                              Scale1(ev.beta, 3), ev.J)
               THEN <<"folded_layer_differs_from_conv_then_bn">> ELSE <<>>)
              \o (IF ev.stock # 1 THEN <<"folded_layer_differs_from_stock_conv_bn_pair">> ELSE <<>>))
Verdicts(ev) == IF ev.kind = "layer" THEN LayerVerdicts(ev)
                ELSE IF ev.same = 1 THEN <<>> ELSE <<IF ev.op = "unfold" THEN "unfold_changes_predictions" ELSE "convert_to_folded_changes_predictions">>
Init == i = 1
Next == /\ i <= Len(Tr)
        /\ LET v == Verdicts(Tr[i]) IN IF v # <<>> THEN PrintT(<<"REJECT", i, v>>) ELSE TRUE
        /\ i' = i + 1
Spec == Init /\ [][Next]_i
=============================================================================
