SPECIFICATION Spec
