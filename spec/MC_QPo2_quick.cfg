SPECIFICATION Spec
CONSTANTS MinBits = 2
          MaxBits = 5
INVARIANT ExpInRange
INVARIANT NotAboveMaxValue
INVARIANT Log2Nearest
INVARIANT Idempotent
INVARIANT AllReached
PROPERTY Monotone
