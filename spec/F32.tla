------------------------------- MODULE F32 -------------------------------
(* Exact dyadic numbers and exact IEEE-754 binary32 arithmetic on them.
   A value is <<m, e>> = m * 2^e with m an integer, |m| < 2^24 for float32 values.
   All intermediate integers stay below 2^31 (TLC integers are 32-bit).
   Validated against NumPy float32 (see DESIGN.md appendix A/B). *)
EXTENDS Integers, Sequences

Abs(n) == IF n < 0 THEN -n ELSE n
Sgn(n) == IF n > 0 THEN 1 ELSE IF n < 0 THEN -1 ELSE 0
Max(a, b) == IF a >= b THEN a ELSE b
Min(a, b) == IF a <= b THEN a ELSE b
Pow2(k) == 2^k
FloorDiv(a, b) == IF a >= 0 THEN a \div b ELSE -((-a + b - 1) \div b)     \* b > 0
CeilDiv(a, b) == -FloorDiv(-a, b)

RECURSIVE BitLen(_)
BitLen(n) == IF n = 0 THEN 0 ELSE 1 + BitLen(n \div 2)

RECURSIVE StripZeros(_, _)
StripZeros(m, e) == IF m = 0 THEN <<0, 0>> ELSE IF (m % 2) = 0 THEN StripZeros(m \div 2, e + 1) ELSE <<m, e>>
Norm(p) == StripZeros(p[1], p[2])

Zero == <<0, 0>>
One == <<1, 0>>
Half == <<1, -1>>
Neg(a) == <<-a[1], a[2]>>
DAbs(a) == <<Abs(a[1]), a[2]>>
Scale2(a, k) == IF a[1] = 0 THEN Zero ELSE <<a[1], a[2] + k>>          \* a * 2^k, exact
P2(k) == <<1, k>>                                                        \* 2^k
IsZero(a) == a[1] = 0
DSgn(a) == Sgn(a[1])

\* position just above the leading bit: |a| in [2^(Lead-1), 2^Lead)
Lead(a) == a[2] + BitLen(Abs(a[1]))

\* |a| < |b| for non-zero a, b with mantissas below 2^24
MagLess(a, b) ==
  LET la == Lead(a)  lb == Lead(b) IN
  IF la # lb THEN la < lb
  ELSE IF a[2] >= b[2] THEN Abs(a[1]) * Pow2(a[2] - b[2]) < Abs(b[1])
       ELSE Abs(a[1]) < Abs(b[1]) * Pow2(b[2] - a[2])

Less(a, b) ==
  LET sa == Sgn(a[1])  sb == Sgn(b[1]) IN
  IF sa # sb THEN sa < sb
  ELSE IF sa = 0 THEN FALSE
  ELSE IF sa > 0 THEN MagLess(a, b) ELSE MagLess(b, a)

Eq(a, b) == Norm(a) = Norm(b)
Leq(a, b) == Less(a, b) \/ Eq(a, b)
DMax(a, b) == IF Less(a, b) THEN b ELSE a
DMin(a, b) == IF Less(a, b) THEN a ELSE b
DClip(x, lo, hi) == IF Less(x, lo) THEN lo ELSE IF Less(hi, x) THEN hi ELSE x

IsPow2Nat(n) == n > 0 /\ Pow2(BitLen(n) - 1) = n
IsPow2(a) == LET n == Norm(a) IN n[1] = 1                 \* a = +2^k
Log2Exact(a) == Norm(a)[2]                                \* k when a = +-2^k

\* round n * 2^e (0 <= n < 2^31) to 24 significant bits, ties to even;
\* sticky = "the true value is slightly larger than n * 2^e"
RoundNat(n, e, sticky) ==
  LET bl == BitLen(n) IN
  IF bl <= 24 THEN <<n, e>>
  ELSE LET sh == bl - 24
           d == Pow2(sh)
           q == n \div d
           r == n % d
           half == d \div 2
           up == (r > half) \/ (r = half /\ (sticky \/ (q % 2) = 1))
       IN <<IF up THEN q + 1 ELSE q, e + sh>>

\* exact float32 addition (round to nearest even); operands must be float32 values
Add32(a, b) ==
  IF a[1] = 0 THEN Norm(b) ELSE IF b[1] = 0 THEN Norm(a) ELSE
  LET ea == Lead(a)
      eb == Lead(b)
      big == IF ea >= eb THEN a ELSE b
      sml == IF ea >= eb THEN b ELSE a
      g == (IF ea >= eb THEN ea ELSE eb) - 29             \* common grid: leading bit of big at position 29
      bigm == Abs(big[1]) * Pow2(big[2] - g)
      shs == g - sml[2]
      smlm == IF shs <= 0 THEN Abs(sml[1]) * Pow2(-shs) ELSE IF shs >= 26 THEN 0 ELSE Abs(sml[1]) \div Pow2(shs)
      lost == IF shs <= 0 THEN FALSE ELSE IF shs >= 26 THEN TRUE ELSE (Abs(sml[1]) % Pow2(shs)) # 0
      same == Sgn(big[1]) = Sgn(sml[1])
      total == Sgn(big[1]) * bigm + Sgn(sml[1]) * smlm
      mag == IF lost /\ ~same THEN Abs(total) - 1 ELSE Abs(total)
      r == RoundNat(mag, g, lost)
  IN IF total = 0 /\ ~lost THEN Zero ELSE Norm(<<Sgn(total) * r[1], r[2]>>)

Sub32(a, b) == Add32(a, Neg(b))

\* exact float32 product: 24x24 -> 48 bits via 12-bit limbs
Mul32(a, b) ==
  IF a[1] = 0 \/ b[1] = 0 THEN Zero ELSE
  LET x == Abs(a[1])  y == Abs(b[1])
      x1 == x \div 4096  x0 == x % 4096   y1 == y \div 4096  y0 == y % 4096
      mid == x1 * y0 + x0 * y1
      lo0 == x0 * y0 + (mid % 4096) * 4096
      lo == lo0 % 16777216
      hi == x1 * y1 + mid \div 4096 + lo0 \div 16777216
      e == a[2] + b[2]
      sg == Sgn(a[1]) * Sgn(b[1])
      r == IF hi = 0 THEN <<lo, e>>
           ELSE IF BitLen(hi) <= 6 THEN RoundNat(hi * 16777216 + lo, e, FALSE)
           ELSE LET bh == BitLen(hi)
                    up == 30 - bh
                    dn == 24 - up
                    n == hi * Pow2(up) + lo \div Pow2(dn)
                    st == (lo % Pow2(dn)) # 0
                IN RoundNat(n, e + dn, st)
  IN Norm(<<sg * r[1], r[2]>>)

\* the straight-through expression  x + f * (xq - x)  as float32 evaluates it
Ste32f(x, xq, f) == Add32(x, Mul32(f, Add32(Neg(x), xq)))
Ste32(x, xq) == Add32(x, Add32(Neg(x), xq))
\* the non-STE mixing expression  (1 - f) * x + f * xq
Mix32(x, xq, f) == Add32(Mul32(Sub32(One, f), x), Mul32(f, xq))

\* is a an integer multiple of 2^g ?  and the quotient (only meaningful when it is)
IsMultipleOfPow2(a, g) == a[1] = 0 \/ Norm(a)[2] >= g
QuotPow2(a, g) == IF a[1] = 0 THEN 0 ELSE LET n == Norm(a) IN n[1] * Pow2(n[2] - g)   \* caller guarantees small

\* position of x on the quarter-grid of step 2^g :  x = (q + side*eps)/4 * 2^g , side in {0,1}; far values saturate
BigPos == 1000000
QPos(x, g) ==
  LET sh == x[2] - g + 2 IN
  IF x[1] = 0 THEN <<0, 0>>
  ELSE IF sh >= 0 THEN
       IF BitLen(Abs(x[1])) + sh > 21 \/ Abs(x[1]) * Pow2(sh) >= BigPos THEN <<Sgn(x[1]) * BigPos, 0>> ELSE <<x[1] * Pow2(sh), 0>>
  ELSE IF -sh >= 26 THEN <<IF x[1] > 0 THEN 0 ELSE -1, 1>>
  ELSE LET d == Pow2(-sh)
           q == FloorDiv(x[1], d)
       IN IF Abs(q) >= BigPos THEN <<Sgn(x[1]) * BigPos, 0>> ELSE <<q, IF q * d = x[1] THEN 0 ELSE 1>>

\* integers nearest to (q + side*eps)/4 : both at an exact tie
NearestQ(q, s) ==
  LET f == FloorDiv(q, 4)  r == q - 4 * f IN
  IF r < 2 THEN {f} ELSE IF r > 2 \/ (r = 2 /\ s > 0) THEN {f + 1} ELSE {f, f + 1}
FloorQ(q, s) == FloorDiv(q, 4)
CeilQ(q, s) == LET f == FloorDiv(q, 4) IN IF q = 4 * f /\ s = 0 THEN f ELSE f + 1
ClipI(v, lo, hi) == IF v < lo THEN lo ELSE IF v > hi THEN hi ELSE v
=============================================================================
