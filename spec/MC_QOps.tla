------------------------------- MODULE MC_QOps -------------------------------
(* The closed-form operation counts equal the cardinality of the loop nests on every small geometry. *)
EXTENDS QOps, TLC
CONSTANTS MaxN, MaxK
VARIABLES g
Geoms == {[cls |-> "Conv2D", h |-> h, w |-> w, cin |-> ci, cout |-> co, kh |-> kh, kw |-> kw, sh |-> s, sw |-> s,
           dh |-> d, dw |-> d, pad |-> p, dm |-> 1, units |-> 1] :
            h \in 1..MaxN, w \in {1, MaxN}, ci \in {1, 2}, co \in {1, 2}, kh \in 1..MaxK, kw \in {1, MaxK}, s \in 1..3,
            d \in 1..2, p \in {"valid", "same"}}
Init == g \in {x \in Geoms : x.sh = 1 \/ x.dh = 1}
Next == FALSE /\ UNCHANGED g
Spec == Init /\ [][Next]_g
OutSizeIsPositionCount ==
  /\ Cardinality(Positions(g.h, g.kh, g.sh, g.dh, g.pad)) = OutSize(g.h, g.kh, g.sh, g.dh, g.pad)
  /\ Cardinality(Positions(g.w, g.kw, g.sw, g.dw, g.pad)) = OutSize(g.w, g.kw, g.sw, g.dw, g.pad)
ClosedFormIsLoopNest == (g.h <= 5 /\ g.kh <= 3) => Cardinality(Conv2DLoopNest(g)) = MACs(g)
=============================================================================
