------------------------------ MODULE MC_QTypes ------------------------------
(* C16 / C17 on the operand-type lattice: brute force over every value pair. *)
EXTENDS QTypes, TLC
CONSTANTS MaxBits, Ns
VARIABLES w, x
vars == <<w, x>>
Operand(src, b, i, k, h, mk) == [src |-> src, bits |-> b, int |-> i, kn |-> k, hasmv |-> h, mvk |-> mk, mvm |-> 1]
Operands ==
  {Operand("bits", b, i, k, FALSE, 0) : b \in 2..MaxBits, i \in 0..2, k \in {0, 1}}
  \cup {Operand("relu", b, i, 0, FALSE, 0) : b \in 1..MaxBits, i \in 0..2}
  \cup {Operand(s, b, 0, 0, FALSE, 0) : s \in {"po2", "relu_po2"}, b \in 2..MaxBits}
  \cup {Operand(s, b, 0, 0, TRUE, mk) : s \in {"po2", "relu_po2"}, b \in 2..MaxBits, mk \in {-1, 0, 2}}
  \cup {[Operand(s, b, 0, 0, TRUE, mk) EXCEPT !.mvm = 3] : s \in {"po2", "relu_po2"}, b \in 3..MaxBits, mk \in {-1, 0}}
  \cup {Operand(s, 1, 0, 0, FALSE, 0) : s \in {"ternary", "binary", "binary01"}}
ValidOp(o) == (o.src = "po2" => Po2Eff(o) >= 0) /\ (o.src = "bits" => o.bits - o.kn >= 1)
Init == w \in {o \in Operands : ValidOp(o)} /\ x \in {o \in Operands : ValidOp(o)}
Next == FALSE /\ UNCHANGED vars
Spec == Init /\ [][Next]_vars
Out == DesignMultiplier(QT(w), QT(x))
\* ---- named deviations of the transcribed design from the properties (genuine defects, known_findings.json)
SmallMaxPo2(o) == o.src \in {"po2", "relu_po2"} /\ MvLeqOne(o)            \* F-C16-1: get_exp vs max_value <= 1
Relu11Weight == w.src = "relu" /\ w.bits = 1 /\ w.int = 1                            \* F-C16-2
MixedPo2Adder == {w.src, x.src} = {"po2", "relu_po2"}                                 \* F-C16-4
MaxIsPow2(t) == t.po2 \/ t.mode \in {2, 3}                                            \* largest value is a full power of two
\* ---- C16
InvProducts == \/ PropProductsUpToNegatedMin(w, x, Out)                                \* (F-C16-3 is the difference to PropProducts)
               \/ SmallMaxPo2(w) \/ SmallMaxPo2(x) \/ Relu11Weight \/ MixedPo2Adder
InvZero == Out.mode = 3 \/ Rep(<<0, 0>>, Out)
\* the two's-complement asymmetry is the ONLY reason PropProducts fails where InvProducts' first disjunct holds
InvFixedTimesFixedExact == (Mode(w) = 0 /\ Mode(x) = 0) => PropProducts(w, x, Out)
\* ---- C17
InvAccumulator == \A n \in Ns : \A b \in BOOLEAN :
   \/ PropAccumulator(n, Out, DesignAccumulator(n, Out, b))
   \/ (IsPow2Nat(n) /\ ~b /\ MaxIsPow2(Out))                                          \* F-C17-1
   \/ ((SmallMaxPo2(w) \/ SmallMaxPo2(x)) /\ Out.po2)
InvAdder == \/ PropAdder(QT(w), QT(x), DesignAdderType(QT(w), QT(x)))
            \/ MaxIsPow2(QT(w)) \/ MaxIsPow2(QT(x))                                     \* F-C17-2
\* widening an operand never narrows the result
Wider(o) == IF o.src \in {"ternary", "binary", "binary01"} THEN o ELSE [o EXCEPT !.bits = @ + 1]
InvWidening == LET o2 == DesignMultiplier(QT(Wider(w)), QT(x)) IN
               (Mode(Wider(w)) = Mode(w)) => (o2.bits >= Out.bits /\ o2.int >= Out.int)
InvWideningN == \A n \in Ns : DesignAccumulator(n + 1, Out, FALSE).bits >= DesignAccumulator(n, Out, FALSE).bits
ASSUME PrintT(<<"OPERANDS", {o \in Operands : ValidOp(o)}>>)
=============================================================================
