SPECIFICATION Spec
CONSTANTS MaxBits = 5
          Ns = {1, 2, 3, 4, 5, 8, 9, 17, 64}
INVARIANT InvProducts
INVARIANT InvZero
INVARIANT InvFixedTimesFixedExact
INVARIANT InvAccumulator
INVARIANT InvAdder
INVARIANT InvWidening
INVARIANT InvWideningN
