SPECIFICATION Spec
CONSTANTS MaxBits = 3
          Ns = {1, 2, 3, 4, 5, 7, 8, 9, 15, 16, 17, 31, 32, 33, 64, 1024}
INVARIANT InvProducts
INVARIANT InvZero
INVARIANT InvFixedTimesFixedExact
INVARIANT InvAccumulator
INVARIANT InvAdder
INVARIANT InvWidening
INVARIANT InvWideningN
