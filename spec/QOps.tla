-------------------------------- MODULE QOps --------------------------------
(* Operation counts and energy accounting of qtools (property C19).

   Counts: the number of scalar multiply(-accumulate) operations of one layer for one input sample is the cardinality
   of the layer's loop nest (output positions x kernel taps x channels; taps that fall on the padding belong to the
   nest).  Geometry records (g):
      cls, h, w, cin, cout, kh, kw, sh, sw, dh, dw, pad ("valid" | "same"), dm (depth multiplier), units, inputs
   Energy: entries are integers x100 (two decimals in the report). *)
EXTENDS Integers, Sequences, FiniteSets

CeilDiv(a, b) == (a + b - 1) \div b
EffK(k, d) == k + (k - 1) * (d - 1)
\* output positions of a 1-D sliding window from first principles, and the closed form used for larger sizes
Positions(n, k, s, d, pad) ==
  IF pad = "same" THEN {o \in 0..(n - 1) : o * s < n} ELSE {o \in 0..(n - 1) : o * s + EffK(k, d) <= n}
OutSize(n, k, s, d, pad) ==
  IF pad = "same" THEN CeilDiv(n, s) ELSE IF n < EffK(k, d) THEN 0 ELSE (n - EffK(k, d)) \div s + 1

Conv2DLoopNest(g) ==     \* index set of the multiply-accumulates
  Positions(g.h, g.kh, g.sh, g.dh, g.pad) \X Positions(g.w, g.kw, g.sw, g.dw, g.pad) \X (1..g.cout)
  \X (1..g.kh) \X (1..g.kw) \X (1..g.cin)
OH(g) == OutSize(g.h, g.kh, g.sh, g.dh, g.pad)
OW(g) == OutSize(g.w, g.kw, g.sw, g.dw, g.pad)
MACs(g) ==
  CASE g.cls \in {"QConv2D", "Conv2D"} -> OH(g) * OW(g) * g.cout * g.kh * g.kw * g.cin
    [] g.cls \in {"QConv1D", "Conv1D"} -> OW(g) * g.cout * g.kw * g.cin
    [] g.cls \in {"QDepthwiseConv2D", "DepthwiseConv2D"} -> OH(g) * OW(g) * g.cin * g.dm * g.kh * g.kw
    [] g.cls \in {"QDense", "Dense"} -> g.cin * g.units
    \* pooling: one addition per window element and output position and channel (kh x kw is the pool window)
    [] g.cls \in {"AveragePooling2D", "QAveragePooling2D"} -> OH(g) * OW(g) * g.cin * g.kh * g.kw
    [] g.cls \in {"GlobalAveragePooling2D", "QGlobalAveragePooling2D"} -> g.h * g.w * g.cin
    \* merge layers: one operation per element of the (common) input shape
    [] g.cls \in {"Add", "Subtract", "Multiply", "Maximum", "Minimum", "Average"} -> g.h * g.w * g.cin

\* ---- energy accounting (entries x100)
RECURSIVE SumSeq(_)
SumSeq(s) == IF s = <<>> THEN 0 ELSE Head(s) + SumSeq(Tail(s))
LayerSum100(l) == l.e100[1] + l.e100[2] + l.e100[3] + l.e100[4]
Total100(layers) == SumSeq([k \in 1..Len(layers) |-> LayerSum100(layers[k])])
\* total_cost = floor(sum of the unrounded entries); every entry is rounded to 2 decimals (error <= 0.005 each):
\*   -1 - 0.02 L < total - sum(entries) <= 0.02 L      (x100:  -100 - 2L < 100 total - S100 <= 2L)
TotalConsistent(total, layers) ==
  LET d == 100 * total - Total100(layers)  L == Len(layers) IN d > -100 - 2 * L /\ d <= 2 * L
KeyIdx(k) == CASE k = "inputs" -> 1 [] k = "outputs" -> 2 [] k = "parameters" -> 3 [] k = "op_cost" -> 4
\* extract_energy_sum = floor(sum of the selected (rounded) entries)
SelectedSum100(layers, sel) ==
  SumSeq([k \in 1..Len(layers) |-> SumSeq([j \in 1..Len(sel[k]) |-> layers[k].e100[KeyIdx(sel[k][j])]])])
=============================================================================
