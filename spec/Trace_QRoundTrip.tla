--------------------------- MODULE Trace_QRoundTrip ---------------------------
(* Validates replayed round-trip behaviours on real quantizer objects (C09; route RT_Str belongs to C10).
   Events of one trace t:   {a:"New"}  {a:"Probe", y:[..], s:[..]}  {a:<route>, exc:0/1}  ...  and {a:"Registry", name, got}
   The function of the object is observed through a fixed family of probe tensors (outputs y and exposed scale s as
   exact dyadics, inference and training phase with fixed uniform draws).  Every route is a stuttering step on that
   function: UNCHANGED fn. *)
EXTENDS F32, Json, IOUtils, TLC
Tr == ndJsonDeserialize(IOEnv.TRACE_FILE)
VARIABLES l, fn, sc, have, ok
vars == <<l, fn, sc, have, ok>>
SameSeq(a, b) == Len(a) = Len(b) /\ \A k \in 1..Len(a) : Eq(a[k], b[k])
Init == l = 1 /\ fn = <<>> /\ sc = <<>> /\ have = FALSE /\ ok = TRUE
Step ==
  /\ l <= Len(Tr)
  /\ l' = l + 1
  /\ LET ev == Tr[l] IN
     CASE ev.a = "New" -> fn' = <<>> /\ sc' = <<>> /\ have' = FALSE /\ ok' = TRUE
       [] ev.a = "Registry" ->
            /\ UNCHANGED <<fn, sc, have, ok>>
            /\ IF ev.name = ev.got THEN TRUE ELSE PrintT(<<"REJECT", ev.t, l, "Registry", "name_resolves_to_other_class">>)
       [] ev.a = "Probe" ->
            IF ~ok THEN UNCHANGED <<fn, sc, have, ok>>
            ELSE IF ~have THEN fn' = ev.y /\ sc' = ev.s /\ have' = TRUE /\ ok' = TRUE
            ELSE /\ UNCHANGED <<fn, sc, have>>                                  \* the route was a stuttering step
                 /\ IF ~SameSeq(fn, ev.y) THEN PrintT(<<"REJECT", ev.t, l, ev.after, "outputs_changed">>) /\ ok' = FALSE
                    ELSE IF ~SameSeq(sc, ev.s) THEN PrintT(<<"REJECT", ev.t, l, ev.after, "scale_changed">>) /\ ok' = FALSE
                    ELSE ok' = TRUE
       [] OTHER ->                                                            \* a route
            /\ UNCHANGED <<fn, sc, have>>
            /\ IF ok /\ ev.exc = 1 THEN PrintT(<<"REJECT", ev.t, l, ev.a, "raises">>) /\ ok' = FALSE ELSE ok' = ok
Spec == Init /\ [][Step]_vars
=============================================================================
