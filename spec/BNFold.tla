------------------------------- MODULE BNFold -------------------------------
(* Batch-norm folding at inference (property C15), on integer-coded dyadic data.
   Fixed binary exponents of the codes (value = code * 2^exponent):
      x: EX   kernel: EK   gamma: EG   bias, moving_mean: EB   beta: EBETA = EB + EG - 2
      inv = 1/sqrt(var + eps) = 2^-J[c]  (the driver chooses var = 4^J - eps), J[c] \in 0..2
   folded kernel  at EFK = EK + EG - 2 :  K * GAM * 2^(2 - J)
   folded bias    at EFB = EB + EG - 2 :  (B - MEAN) * GAM * 2^(2 - J) + BETA
   Channel c is the last kernel axis for a convolution and the third one for a depthwise convolution. *)
EXTENDS QLayer
Pow2(k) == 2^k

FoldedKernel(k, gam, J, depthwise) ==
  [a \in 1..Len(k) |-> [b \in 1..Len(k[1]) |-> [ci \in 1..Len(k[1][1]) |-> [co \in 1..Len(k[1][1][1]) |->
     LET c == IF depthwise THEN ci ELSE co IN k[a][b][ci][co] * gam[c] * Pow2(2 - J[c])]]]]
FoldedBias(b, mean, gam, beta, J) ==
  [c \in 1..Len(mean) |-> (b[c] - mean[c]) * gam[c] * Pow2(2 - J[c]) + beta[c]]
\* batch normalisation of a pre-activation tensor y (codes at EX+EK, bias already added at that scale):
\*   ((y - mean) * gamma * inv + beta)   expressed at exponent EX + EFK
BN3(y, mean8, gam, beta8, J) ==      \* mean8: mean at EX+EK ; beta8: beta at EX+EFK
  [i \in 1..Len(y) |-> [j \in 1..Len(y[1]) |-> [c \in 1..Len(y[1][1]) |->
     (y[i][j][c] - mean8[c]) * gam[c] * Pow2(2 - J[c]) + beta8[c]]]]
Scale1(v, k) == [c \in 1..Len(v) |-> v[c] * Pow2(k)]
ConvOf(x, k, g, depthwise) == IF depthwise THEN Depthwise(x, k, g) ELSE Conv2D(x, k, g)
=============================================================================
