------------------------------ MODULE MC_QNoise ------------------------------
(* Model checking of QNoise: (1) the scheduler over every callback sequence  TrainBegin (EpochBegin BatchBegin^b
   EpochEnd)^e TrainEnd, several fit() runs, layer calls interleaved; (2) the knob life cycle of one quantizer under
   arbitrary New / Build / Update / Call orders. *)
EXTENDS QNoise, TLC
CONSTANTS MaxFinish, MaxFreq, MaxInit, Exponents, MaxEpochs, MaxBatches, MaxRuns
VARIABLES st, cnt          \* cnt = <<runs, epochs in run, batches in epoch>> only bounds the exploration
vars == <<st, cnt>>
Params == {x \in [start : 0..MaxFinish, finish : 0..MaxFinish, exponent : Exponents, freq : 1..MaxFreq,
                  type : {"step", "epoch"}, init : 0..MaxInit] : x.start <= x.finish}
\* one quantizer already built and float-backed (model was called before training), one not built yet
Q0 == <<QBuild(QNew(ROne, FALSE), FALSE), QNew(ROne, FALSE)>>
Init == /\ st \in {SInit(sp, Q0) : sp \in Params}
        /\ cnt = <<0, 0, 0>>
Count(h) == CASE h = "TrainBegin" -> <<cnt[1] + 1, 0, 0>>
              [] h = "EpochBegin" -> <<cnt[1], cnt[2] + 1, 0>>
              [] h = "BatchBegin" -> <<cnt[1], cnt[2], cnt[3] + 1>>
              [] OTHER -> cnt
Hook(h) == /\ HookEnabled(st, h)
           /\ st' = HookApply(st, h)
           /\ cnt' = Count(h)
           /\ cnt'[1] <= MaxRuns /\ cnt'[2] <= MaxEpochs /\ cnt'[3] <= MaxBatches
Call == st.pc = "batch" /\ st' = CallAll(st) /\ st' # st /\ cnt' = cnt
Next == (\E h \in Hooks : Hook(h)) \/ Call
Spec == Init /\ [][Next]_vars
InvApplied == AppliedToAll(st)
InvEndPoints == EndPoints(st)
InvInUnit == InUnit(st)
InvVariableBacked == VariableBacked(st)
NonDecreasing == [][NonDecreasingStep(st, st')]_vars
=============================================================================
