----------------------------- MODULE MC_QFixed -----------------------------
(* Bounded model checking of QFixed: Design => Prop on EVERY input cell of EVERY configuration of the lattice.
   One behaviour per configuration: the input position sweeps the quarter-step grid from two steps below the lowest
   code to two steps above the highest one; at every position every admissible output (both at a tie) is a state. *)
EXTENDS QFixed, TLC
CONSTANTS MaxBits, MaxInt
VARIABLES c, p, c4
vars == <<c, p, c4>>

Base(cls, b, i, k, s, sl, clip, ub) ==
  [cls |-> cls, bits |-> b, int |-> i, kn |-> k, sym |-> s, sl |-> sl, al |-> <<1, 0>>, clip |-> clip, ub |-> ub]

CfgLinear == {Base(cls, b, i, k, s, 0, "q", <<0, 0>>) :
                cls \in {"bits", "linear"}, b \in 1..MaxBits, i \in {-1, 0, MaxInt}, k \in {0, 1}, s \in {0, 1}}
CfgRelu == {Base("relu", b, i, 0, 0, sl, clip, <<0, 0>>) :
                b \in 1..MaxBits, i \in {-1, 0, MaxInt}, sl \in 0..3, clip \in {"q", "none"}}
\* relu_upper_bound = half of the code range (a multiple of the step)
CfgReluUb == {Base("relu", b, i, 0, 0, sl, "ub", <<1, i - 1>>) : b \in 2..MaxBits, i \in {0, MaxInt}, sl \in 0..1}
CfgSurr == {Base(cls, b, 0, 1, s, 0, "q", <<0, 0>>) : cls \in {"tanh", "sigmoid"}, b \in 1..MaxBits, s \in {0, 1}}
Cfgs == {x \in CfgLinear \cup CfgRelu \cup CfgReluUb \cup CfgSurr :
            /\ NonSignBits(x) >= 1 /\ SlopeFitsGrid(x)
            /\ (x.cls = "tanh" => x.bits >= 2)}

FirstPos(x) == <<4 * LoCode(x) - 8, 0>>
LastQ(x) == 4 * (M(x) - 1) + 8
NextCell(q) == IF q[2] = 0 THEN <<q[1], 1>> ELSE <<q[1] + 1, 0>>

Init == /\ c \in Cfgs
        /\ p = FirstPos(c)
        /\ c4 \in Design(c, p)
Step == /\ p[1] <= LastQ(c)
        /\ p' = NextCell(p)
        /\ c4' \in Design(c, p')
        /\ c' = c
Spec == Init /\ [][Step]_vars

\* ---- C01
Representable == PropRepresentable(c, c4)
AtMostTwoPowBits == PropAtMostTwoPowBits(c)
\* every code of the declared format is reachable (so the reachable set IS Codes(c)), and range() lists exactly it
PreimagePos(x, k) == IF x.cls = "relu" /\ k < 0 THEN <<4 * k * Pow2(x.sl), 0>> ELSE <<4 * k, 0>>
AllCodesReached == \A k \in Codes(c) : 4 * k \in Design(c, PreimagePos(c, k))
RangeDom(x) == \/ x.cls = "linear"
               \/ (x.cls = "bits" /\ x.sym = 0 /\ x.kn = 1)
               \/ (x.cls = "relu" /\ x.sl = 0 /\ x.clip # "ub")
RangeIsReachable == RangeDom(c) => DesignRangeCodes(c) = Codes(c)
\* ---- C02
Nearest == PropNearest(c, p, c4)
HalfStep == PropHalfStep(c, p, c4)
Idempotent == IdemDom(c) => Design(c, <<c4, 0>>) = {c4}
Monotone == [][c4' >= c4]_vars
\* the lattice, for the driver
ASSUME PrintT(<<"CFGS", Cfgs>>)
=============================================================================
