---------------------------- MODULE MC_ModelGraph ----------------------------
(* All models of up to MaxLen layers over the layer alphabet x all dictionaries over the entry alphabet. *)
EXTENDS ModelGraph, TLC
CONSTANTS MaxLen
VARIABLES model, dict, phase
vars == <<model, dict, phase>>
Names == <<"n1", "n2", "n3">>
LayerAlphabet ==
  {[kind |-> k, bias |-> b, act |-> a] : k \in WeightKinds, b \in BOOLEAN, a \in {"linear", "relu"}}
  \cup {[kind |-> "Activation", bias |-> FALSE, act |-> a] : a \in {"relu", "tanh", "softmax"}}
  \cup {[kind |-> k, bias |-> FALSE, act |-> "linear"] : k \in {"ReLU", "LeakyReLU", "BatchNormalization"}}
Models == UNION {{[j \in 1..n |-> [name |-> Names[j], kind |-> f[j].kind, bias |-> f[j].bias, act |-> f[j].act]] :
                    f \in [1..n -> LayerAlphabet]} : n \in 1..MaxLen}
ClassKeys == {"QDense", "QConv2D", "QDepthwiseConv2D", "QActivation", "QBatchNormalization"}
EntriesFor(key) ==
  IF key \in {"QDense", "QConv2D", "QDepthwiseConv2D"} THEN {"absent", "empty", "A", "B"}
  ELSE IF key = "QActivation" THEN {"absent", "S", "D", "Dr", "Dl"}
  ELSE IF key = "QBatchNormalization" THEN {"absent", "N"}
  ELSE {"absent", "empty", "A", "B", "S", "D", "Dr", "Dl", "N"}
Keys == ClassKeys \cup {"n1", "n2", "n3"}
\* a name entry must have the form its layer kind understands
Fits(m, d) == \A k \in 1..Len(m) :
   LET e == d[m[k].name] IN
   \/ e = "absent"
   \/ (m[k].kind \in WeightKinds /\ e \in {"empty", "A", "B"})
   \/ (m[k].kind \in {"Activation", "ReLU", "LeakyReLU"} /\ e \in {"S", "D", "Dr", "Dl"})
   \/ (m[k].kind = "BatchNormalization" /\ e \in {"N", "empty"})
\* the model is chosen first, the dictionary in a second (parallel) step, entry by entry
NameEntries(l) == IF l.kind \in WeightKinds THEN {"absent", "empty", "A", "B"}
                  ELSE IF l.kind = "BatchNormalization" THEN {"absent", "N", "empty"} ELSE {"absent", "S", "D", "Dr", "Dl"}
NoDict == [k \in Keys |-> "absent"]
Init == model \in Models /\ dict = NoDict /\ phase = 0
Choose == /\ phase = 0 /\ phase' = 1 /\ model' = model
          /\ \E d1 \in EntriesFor("QDense"), d2 \in EntriesFor("QConv2D"), d3 \in EntriesFor("QDepthwiseConv2D"),
                a \in EntriesFor("QActivation"), b \in EntriesFor("QBatchNormalization"),
                e1 \in NameEntries(model[1]),
                e2 \in (IF Len(model) >= 2 THEN NameEntries(model[2]) ELSE {"absent"}),
                e3 \in (IF Len(model) >= 3 THEN NameEntries(model[3]) ELSE {"absent"}) :
                dict' = [NoDict EXCEPT !["QDense"] = d1, !["QConv2D"] = d2, !["QDepthwiseConv2D"] = d3,
                                       !["QActivation"] = a, !["QBatchNormalization"] = b,
                                       !["n1"] = e1, !["n2"] = e2, !["n3"] = e3]
Next == Choose
Spec == Init /\ [][Next]_vars
Res == DesignQuantize(dict, model)
UnselectedUnchanged == PropUnselectedUnchanged(dict, model, Res)
BiaslessNoBiasQuantizer == PropBiaslessNoBiasQuantizer(model, Res)
NameBeatsClass == PropNameBeatsClass(dict, model, Res)
TopologyKept == PropTopologyKept(model, Res)
ClassIsCounterpart == PropClassIsCounterpart(model, Res)
=============================================================================
