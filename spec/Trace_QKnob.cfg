SPECIFICATION Spec
