SPECIFICATION Spec
