------------------------------ MODULE MC_QPo2 ------------------------------
(* Design => Prop for the power-of-two quantizers on every magnitude cell of every configuration. *)
EXTENDS QPo2, TLC
CONSTANTS MinBits, MaxBits
VARIABLES c, p, e, lastNB
vars == <<c, p, e, lastNB>>
Cfgs == {[cls |-> cls, bits |-> b, hasmv |-> h, mvk |-> k, sl |-> sl, mode |-> m] :
            cls \in {"po2", "relu_po2"}, b \in MinBits..MaxBits, h \in BOOLEAN, k \in -3..3, sl \in 0..2,
            m \in {"rnd", "floor"}}
Valid(x) == /\ EffBits(x) >= 0
            /\ (~x.hasmv => x.mvk = 0)
            /\ (x.cls = "po2" => x.sl = 0)
FirstCell(x) == <<Min(MinExp(x), -24) - 3, 0>>
LastK(x) == Max(MaxExp(x), 3) + 3
NextCell(q) == IF q[2] = 6 THEN <<q[1] + 1, 0>> ELSE <<q[1], q[2] + 1>>
Below(q) == CellLess(q, EpsCell)
Init == /\ c \in {x \in Cfgs : Valid(x)}
        /\ p = FirstCell(c)
        /\ e \in DesignExp(c, p, Below(p))
        /\ lastNB = MinExp(c)
Step == /\ p[1] <= LastK(c)
        /\ p' = NextCell(p)
        /\ e' \in DesignExp(c, p', Below(p'))
        /\ lastNB' = IF IsBand(p') THEN lastNB ELSE e'
        /\ c' = c
Spec == Init /\ [][Step]_vars
ExpInRange == PropExpInRange(c, e)
NotAboveMaxValue == PropNotAboveMaxValue(c, e)
Log2Nearest == PropLog2Nearest(c, p, Below(p), e)
\* idempotent: the cell of an emitted power of two maps to itself (above the epsilon floor, Design is the identity
\* on admissible exponents; below it every output is 2^MinExp >= epsilon or the configuration is a known finding)
Idempotent == (IdemDom(c) /\ ~Below(<<e, 0>>)) => DesignExp(c, <<e, 0>>, FALSE) = {e}
\* every admissible exponent is reachable
AllReached == \A k \in MinExp(c)..TopExp(c) : ~Below(<<k, 0>>) => k \in DesignExp(c, <<k, 0>>, FALSE)
\* monotone on the magnitude axis, comparing cells outside the float32 log2 bands
Monotone == [][~IsBand(p') => e' >= lastNB]_vars
ASSUME PrintT(<<"CFGS", {x \in Cfgs : Valid(x)}>>)
=============================================================================
