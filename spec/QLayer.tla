------------------------------- MODULE QLayer -------------------------------
(* Executable semantics of the quantized layers on small integer-coded tensors (property C11) and the order in which
   a layer applies its quantizers.  Tensors are nested 1-based sequences of integers (the driver codes dyadic data as
   integers with a common power-of-two scale, so every sum is exact).

     Dense      x[n], k[n][m]                       Conv2D  x[h][w][c], k[kh][kw][ci][co]
     Depthwise  k[kh][kw][c][dm] -> channel c*dm+m  Pool    sum over the window (the reciprocal is applied outside)
   Padding as TensorFlow: "same" pads total = max((o-1)*s + ek - n, 0), before = total \div 2; "causal" pads (k-1)*d
   on the left only. *)
EXTENDS Integers, Sequences, FiniteSets

RECURSIVE SumSeq(_)
SumSeq(s) == IF s = <<>> THEN 0 ELSE Head(s) + SumSeq(Tail(s))
CeilDiv(a, b) == (a + b - 1) \div b
EffK(k, d) == k + (k - 1) * (d - 1)
OutSize(n, k, s, d, pad) ==
  IF pad = "same" THEN CeilDiv(n, s) ELSE IF pad = "causal" THEN CeilDiv(n, s) ELSE (n - EffK(k, d)) \div s + 1
PadBefore(n, k, s, d, pad) ==
  IF pad = "valid" THEN 0
  ELSE IF pad = "causal" THEN (k - 1) * d
  ELSE LET o == CeilDiv(n, s)  tot == (o - 1) * s + EffK(k, d) - n IN (IF tot > 0 THEN tot ELSE 0) \div 2

Dense(x, k) == [j \in 1..Len(k[1]) |-> SumSeq([i \in 1..Len(x) |-> x[i] * k[i][j]])]

\* g = [sh, sw, dh, dw, pad].  Grouped convolution (Keras `groups`): the kernel's third axis holds C / G input channels;
\* output channel co belongs to group (co - 1) \div (CO / G) and reads that group's slice of the input (G = 1: ordinary)
Conv2D(x, k, g) ==
  LET H == Len(x)  W == Len(x[1])  C == Len(x[1][1])
      KH == Len(k)  KW == Len(k[1])  CIG == Len(k[1][1])  CO == Len(k[1][1][1])
      G == C \div CIG
      OH == OutSize(H, KH, g.sh, g.dh, g.pad)   OW == OutSize(W, KW, g.sw, g.dw, g.pad)
      PT == PadBefore(H, KH, g.sh, g.dh, g.pad)  PL == PadBefore(W, KW, g.sw, g.dw, g.pad)
      At(r, c, ch) == IF r < 1 \/ r > H \/ c < 1 \/ c > W THEN 0 ELSE x[r][c][ch]
  IN [oh \in 1..OH |-> [ow \in 1..OW |-> [co \in 1..CO |->
        SumSeq([t \in 1..(KH * KW * CIG) |->
           LET kh == (t - 1) \div (KW * CIG) + 1
               kw == (((t - 1) \div CIG) % KW) + 1
               ci == ((t - 1) % CIG) + 1
               ch == ((co - 1) \div (CO \div G)) * CIG + ci
           IN At((oh - 1) * g.sh + (kh - 1) * g.dh - PT + 1, (ow - 1) * g.sw + (kw - 1) * g.dw - PL + 1, ch)
              * k[kh][kw][ci][co]])]]]

Depthwise(x, k, g) ==
  LET H == Len(x)  W == Len(x[1])  C == Len(x[1][1])
      KH == Len(k)  KW == Len(k[1])  DM == Len(k[1][1][1])
      OH == OutSize(H, KH, g.sh, g.dh, g.pad)   OW == OutSize(W, KW, g.sw, g.dw, g.pad)
      PT == PadBefore(H, KH, g.sh, g.dh, g.pad)  PL == PadBefore(W, KW, g.sw, g.dw, g.pad)
      At(r, c, ch) == IF r < 1 \/ r > H \/ c < 1 \/ c > W THEN 0 ELSE x[r][c][ch]
  IN [oh \in 1..OH |-> [ow \in 1..OW |-> [co \in 1..(C * DM) |->
        LET ci == (co - 1) \div DM + 1   m == ((co - 1) % DM) + 1 IN
        SumSeq([t \in 1..(KH * KW) |->
           LET kh == (t - 1) \div KW + 1   kw == ((t - 1) % KW) + 1 IN
           At((oh - 1) * g.sh + (kh - 1) * g.dh - PT + 1, (ow - 1) * g.sw + (kw - 1) * g.dw - PL + 1, ci)
           * k[kh][kw][ci][m]])]]]

\* window sums of a "valid" pooling (ph x pw window)
PoolSum(x, ph, pw, sh, sw) ==
  LET H == Len(x)  W == Len(x[1])  C == Len(x[1][1])
      OH == (H - ph) \div sh + 1   OW == (W - pw) \div sw + 1
  IN [oh \in 1..OH |-> [ow \in 1..OW |-> [c \in 1..C |->
        SumSeq([t \in 1..(ph * pw) |-> x[(oh - 1) * sh + (t - 1) \div pw + 1][(ow - 1) * sw + ((t - 1) % pw) + 1][c]])]]]
GlobalSum(x) == [c \in 1..Len(x[1][1]) |->
                   SumSeq([t \in 1..(Len(x) * Len(x[1])) |-> x[(t - 1) \div Len(x[1]) + 1][((t - 1) % Len(x[1])) + 1][c]])]

AddBias3(y, b) == [i \in 1..Len(y) |-> [j \in 1..Len(y[1]) |-> [c \in 1..Len(y[1][1]) |-> y[i][j][c] + b[c]]]]
AddBias1(y, b) == [c \in 1..Len(y) |-> y[c] + b[c]]

\* ---- the order in which a layer applies its quantizers (one call)
\* roles: "kernel" "depthwise" "pointwise" "bias" "average" "activation"
Pipeline(cls, usebias, hasact) ==
  (CASE cls \in {"QDense", "QConv1D", "QConv2D", "QScaleShift"} -> <<"kernel">>
     [] cls = "QDepthwiseConv2D" -> <<"depthwise">>
     [] cls \in {"QSeparableConv1D", "QSeparableConv2D"} -> <<"depthwise", "pointwise">>
     [] cls \in {"QAveragePooling2D", "QGlobalAveragePooling2D"} -> <<"average">>)
  \o (IF usebias /\ cls \notin {"QAveragePooling2D", "QGlobalAveragePooling2D"} THEN <<"bias">> ELSE <<>>)
  \o (IF hasact THEN <<"activation">> ELSE <<>>)
=============================================================================
