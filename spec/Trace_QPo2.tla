----------------------------- MODULE Trace_QPo2 -----------------------------
(* Judges recorded calls of the real quantized_po2 / quantized_relu_po2 against QPo2 (property C03).
   Events: {c:<cfg index>, x, y, yy, mn, mx}   y = q(x), yy = q(y), mn/mx = q.min()/q.max(); dyadics [m,e]. *)
EXTENDS QPo2, Json, IOUtils, TLC
Tr == ndJsonDeserialize(IOEnv.TRACE_FILE)
Cf == JsonDeserialize(IOEnv.CFG_FILE)
VARIABLE i

\* 24-bit normalised mantissa of a non-zero dyadic and its cell
Mant24(v) == LET m == Abs(v[1]) IN m * Pow2(24 - BitLen(m))
SqrtLo == 11862771          \* sqrt(2)*2^23 = 11863283.2 ; band of 2^-14 in log2 = +-502, widened to 512
SqrtHi == 11863795
CellOf(v) ==
  LET k == Lead(v) - 1   f == Mant24(v) IN
  <<k, IF f = 8388608 THEN 0 ELSE IF f <= 8388608 + 512 THEN 1 ELSE IF f < SqrtLo THEN 2 ELSE IF f <= SqrtHi THEN 3
       ELSE IF f < 16777216 - 1024 THEN 5 ELSE 6>>

\* the magnitude that is quantized, and the sign of the result
Slope(c) == P2(-c.sl)
Mag(c, x) ==
  IF c.cls = "po2" THEN DAbs(x)
  ELSE IF x[1] >= 0 THEN x ELSE IF c.sl = 0 THEN Zero ELSE Scale2(DAbs(x), -c.sl)
Denormal(x) == x[1] # 0 /\ Lead(x) < -125
ResSigns(c, x) ==
  IF c.cls = "po2" THEN (IF x[1] > 0 \/ x[1] = 0 THEN {1} ELSE IF Denormal(x) THEN {1, -1} ELSE {-1})
  ELSE IF x[1] >= 0 \/ c.sl = 0 THEN {1} ELSE IF Denormal(x) THEN {1, -1} ELSE {-1}
\* the unquantized surrogate inside the straight-through expression
Xu(c, x) ==
  IF c.cls = "po2" THEN x
  ELSE IF c.hasmv /\ Less(P2(c.mvk), x) THEN P2(c.mvk)
  ELSE IF x[1] >= 0 THEN x ELSE IF c.sl = 0 THEN Zero ELSE Scale2(x, -c.sl)

BelowEps(v) == v[1] = 0 \/ Less(v, EpsF32)
\* admissible exponents for the concrete magnitude (Prop), and what the transcribed design would produce
PropExps(c, v) == LET p == IF v[1] = 0 THEN <<-200, 0>> ELSE CellOf(v) IN
                  {e \in MinExp(c)..MaxExp(c) : PropLog2Nearest(c, p, BelowEps(v), e)}
\* input domain (DESIGN 5.3): everything on the small side, up to 2^22 times the largest output magnitude
InDom(c, x) == LET u == Xu(c, x) IN u[1] = 0 \/ Lead(u) <= TopExp(c) + 22
InBand(c, x) == LET v == Mag(c, x) IN v[1] # 0 /\ ~BelowEps(v) /\ IsBand(CellOf(v))

CallVerdicts(ev) ==
  LET c == Cf[ev.c]
      v == Mag(c, ev.x)
      y == Norm(ev.y)
      ispow == Abs(y[1]) = 1
      exps == PropExps(c, v)
      ste == {Ste32(Xu(c, ev.x), <<s, e>>) : s \in ResSigns(c, ev.x), e \in exps}
  IN (IF ~ispow THEN (IF y \in ste THEN <<"power_lost_in_float32_ste">> ELSE <<"not_pow2">>)
      ELSE IF ~PropExpInRange(c, y[2]) THEN <<"exp_out_of_range">>
      ELSE IF y[1] \notin ResSigns(c, ev.x) THEN <<"sign">>
      ELSE IF ~PropNotAboveMaxValue(c, y[2]) THEN <<"exceeds_max_value">>
      ELSE IF ~PropLog2Nearest(c, IF v[1] = 0 THEN <<-200, 0>> ELSE CellOf(v), BelowEps(v), y[2]) THEN <<"not_log2_nearest">>
      ELSE <<>>)
     \o (IF Less(ev.y, ev.mn) \/ Less(ev.mx, ev.y) THEN <<"outside_minmax">> ELSE <<>>)
     \o (IF ispow /\ IdemDom(c) /\ ~Eq(ev.yy, ev.y) THEN <<"not_idempotent">> ELSE <<>>)
     \o (IF i > 1 /\ Tr[i - 1].c = ev.c /\ InDom(c, Tr[i - 1].x) /\ Sgn(Tr[i - 1].x[1]) = Sgn(ev.x[1])
            /\ ~InBand(c, ev.x) /\ ~InBand(c, Tr[i - 1].x)
            /\ Leq(Tr[i - 1].x, ev.x) /\ Less(ev.y, Tr[i - 1].y)
         THEN <<"not_monotone">> ELSE <<>>)

Verdicts(ev) == IF InDom(Cf[ev.c], ev.x) THEN CallVerdicts(ev) ELSE <<"DEV_outside_input_domain">>
Init == i = 1
Next == /\ i <= Len(Tr)
        /\ LET v == Verdicts(Tr[i]) IN IF v # <<>> THEN PrintT(<<"REJECT", i, v>>) ELSE TRUE
        /\ i' = i + 1
Spec == Init /\ [][Next]_i
=============================================================================
