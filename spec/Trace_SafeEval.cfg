SPECIFICATION Spec
