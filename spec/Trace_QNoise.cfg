SPECIFICATION Spec
INVARIANT InvApplied
INVARIANT InvEndPoints
INVARIANT InvInUnit
PROPERTY NonDecreasing
