----------------------------- MODULE Trace_QStoch -----------------------------
(* Judges recorded calls with stochastic rounding enabled (property C08).  tf.random.uniform is replaced in the driver
   by the constant draw u (min + u*(max-min) for the ranged form), so every call is deterministic.
   Events {c, ph, u, x, y, yd}: ph = learning phase, y = output of the stochastic-rounding quantizer, yd = output of
   the same configuration with round-to-nearest.   Configurations (CFG_FILE) carry fam:
     "fixed" QFixed record              "po2"  QPo2 record                 "eq"  only the inference equality is judged
     "sign1" [int]: quantized_linear(1, int) *)
EXTENDS QStoch, Json, IOUtils, TLC
Tr == ndJsonDeserialize(IOEnv.TRACE_FILE)
Cf == JsonDeserialize(IOEnv.CFG_FILE)
VARIABLE i

\* ---------------------------------------------------------------- fixed point, training phase
\* exact value in steps and the stochastic code for draw u:  floor if frac < u else ceil
StochCode(v, g, u) ==
  LET p == QPos(v, g)
      f == FloorQ(p[1], p[2])
      frac == Add32(Scale2(v, -g), <<-f, 0>>)              \* exact: v/step - floor(v/step)
  IN IF Less(frac, u) THEN f ELSE CeilQ(p[1], p[2])
ExpectedFixed(c, x, u) ==
  LET g == StepE(c)  a == SurrArg(c, x) IN
  CASE c.cls = "bits" -> 4 * ClipI(StochCode(a, g, u), c.kn * (-M(c) + c.sym), M(c) - 1)
    [] c.cls = "linear" ->
         LET cmin == c.kn * (-M(c) + c.sym)   cmax == M(c) - 1   p == QPos(a, g) IN
         IF p[1] < 4 * cmin THEN 4 * cmin ELSE IF p[1] >= 4 * cmax THEN 4 * cmax ELSE 4 * StochCode(a, g, u)
    [] c.cls = "relu" ->
         4 * ClipI(StochCode(a, g, u), 0, M(c) - 1)
         + (IF c.sl = 0 THEN 0
            ELSE Max(Min(4 * StochCode(Scale2(a, -c.sl), g, u), 0), -((4 * M(c)) \div Pow2(c.sl))))
    [] c.cls = "tanh" -> 4 * ClipI(StochCode(a, g, u), -M(c) + c.sym, M(c) - 1)
    [] c.cls = "sigmoid" -> 4 * ClipI(StochCode(a, g, u), c.sym, M(c) - 1)
\* |x| below 2^24 steps (C01's domain) so that the straight-through expression is exact
\* (denormal-sized inputs are flushed by the TF kernels and are left out)
InDomFixed(c, x) == x[1] = 0 \/ (Lead(x) >= -100 /\ (c.cls \in {"tanh", "sigmoid"} \/ Lead(x) <= 24 + StepE(c)))
FixedTraining(c, ev) ==
  LET yq == YQ(c, ev.y)  p == Pos(c, ev.x) IN
  IF ~yq[1] \/ (yq[2] % 4) # 0 \/ ~PropAdjacent(c, p, yq[2]) THEN <<"not_adjacent_code">>
  ELSE IF ~PropCodesFixed(c, p, yq[2]) THEN <<"code_moved">>
  ELSE IF yq[2] # ExpectedFixed(c, ev.x, ev.u) THEN <<"wrong_direction_for_draw">>
  ELSE <<>>

\* ---------------------------------------------------------------- power of two, training phase
\* stochastic_round_po2 on magnitude v (>= 2^-18, after the max_value clamp): neighbours 2^l <= v < 2^r, result
\* l if v < 2^l + u*(2^r - 2^l) else r ; then the exponent clip
NeedSign(c) == IF c.hasmv /\ c.mvk <= 0 THEN 0 ELSE 1
Eff(c) == IF c.cls = "po2" THEN c.bits - 1 - NeedSign(c) ELSE c.bits - NeedSign(c)
MinE(c) == -Pow2(Eff(c))
MaxE(c) == Pow2(Eff(c)) - 1
Po2Training(c, ev) ==
  LET x == ev.x
      v0 == IF c.cls = "po2" THEN DAbs(x) ELSE x
      v == IF c.hasmv /\ ~Less(v0, P2(c.mvk)) THEN P2(c.mvk) ELSE v0
      l == Lead(v) - 1
      val == Add32(P2(l), Mul32(ev.u, P2(l)))                 \* 2^l + u * (2^(l+1) - 2^l)
      e == ClipI(IF Less(v, val) THEN l ELSE l + 1, MinE(c), MaxE(c))
      y == Norm(ev.y)
      sg == IF c.cls = "po2" /\ x[1] < 0 THEN -1 ELSE 1
  IN IF y[1] # sg \/ y[2] \notin {ClipI(l, MinE(c), MaxE(c)), ClipI(l + 1, MinE(c), MaxE(c))} THEN <<"not_adjacent_code">>
     ELSE IF IsPow2(v) /\ l >= MinE(c) /\ l <= MaxE(c) /\ y[2] # l THEN <<"code_moved">>
     ELSE IF y[2] # e THEN <<"wrong_direction_for_draw">>
     ELSE <<>>
InDomPo2(c, x) == x[1] # 0 /\ Lead(x) >= -17 /\ Lead(x) <= MaxE(c) + 12 /\ (c.cls = "po2" \/ x[1] > 0)

\* ---------------------------------------------------------------- stochastic_binary, training phase
\* (alpha None, use_real_sigmoid = False): p = hard_sigmoid(temperature * x); the code is +1 iff p - u >= 0
\* (sign(0) is mapped to +1), the output is the straight-through value of that code
SbTraining(c, ev) ==
  LET p == HardSig(Mul32(c.temp, ev.x))
      q == IF Less(p, ev.u) THEN -1 ELSE 1
  IN IF ~(\E k \in {-1, 1} : Eq(ev.y, Ste32(ev.x, <<k, 0>>))) THEN <<"training_output_is_not_a_code">>
     ELSE IF ~Eq(ev.y, Ste32(ev.x, <<q, 0>>)) THEN <<"code_is_not_sign_of_probability_minus_draw">>
     ELSE <<>>
\* ---------------------------------------------------------------- one-bit sign format of quantized_linear, training phase
\* codes +-2^(int-1); v = clip(x / 2^int, -1/2, 1/2) - 1/2 in [-1, 0] is rounded stochastically (floor if frac < u else
\* ceil) and shifted back: -half iff v = -1, or v < 0 and v + 1 < u.  Inputs are multiples of 2^(int-6): all sums exact.
Sign1Training(c, ev) ==
  LET t == Scale2(ev.x, -c.int)
      cl == DClip(t, <<-1, -1>>, Half)
      frac == Add32(cl, Half)                                 \* v + 1
      neg == frac[1] = 0 \/ (Less(frac, One) /\ Less(frac, ev.u))
      y == Norm(ev.y)
  IN IF y \notin {<<1, c.int - 1>>, <<-1, c.int - 1>>} THEN <<"not_adjacent_code">>
     ELSE IF y # <<IF neg THEN -1 ELSE 1, c.int - 1>> THEN <<"wrong_direction_for_draw">>
     ELSE <<>>
Verdicts(ev) ==
  LET c == Cf[ev.c] IN
  IF ev.ph = 0 THEN (IF Eq(ev.y, ev.yd) THEN <<>> ELSE <<"inference_differs_from_deterministic">>)
  ELSE IF c.fam = "fixed" THEN (IF InDomFixed(c, ev.x) THEN FixedTraining(c, ev) ELSE <<>>)
  ELSE IF c.fam = "po2" THEN (IF InDomPo2(c, ev.x) THEN Po2Training(c, ev) ELSE <<>>)
  ELSE IF c.fam = "sign1" THEN Sign1Training(c, ev)
  ELSE IF c.fam = "sb" THEN (IF ev.x[1] = 0 \/ Lead(ev.x) > -100 THEN SbTraining(c, ev) ELSE <<>>)
  ELSE <<>>
Init == i = 1
Next == /\ i <= Len(Tr)
        /\ LET v == Verdicts(Tr[i]) IN IF v # <<>> THEN PrintT(<<"REJECT", i, v>>) ELSE TRUE
        /\ i' = i + 1
Spec == Init /\ [][Next]_i
=============================================================================
