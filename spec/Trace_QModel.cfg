SPECIFICATION Spec
