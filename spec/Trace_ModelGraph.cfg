SPECIFICATION Spec
