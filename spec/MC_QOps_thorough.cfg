SPECIFICATION Spec
CONSTANTS MaxN = 12
          MaxK = 5
INVARIANT OutSizeIsPositionCount
INVARIANT ClosedFormIsLoopNest
