SPECIFICATION Spec
