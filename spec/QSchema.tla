------------------------------- MODULE QSchema -------------------------------
(* Constructor-option schemas of the 14 registered quantizer classes (qkeras/quantizers.py) and the configuration
   lattice used for the round-trip properties C09 / C10.

   Value encoding (shared with the Python driver; everything is a string so that TLC can compare values):
   "i:<int>", "b:0" / "b:1", "None", "s:<text>", "f:<repr>".
   A configuration is  [cls |-> name, opts |-> function from option name to value]  holding EVERY constructor option.
   Lattice: for each class a few base configurations (contexts in which options are function-relevant) and a set of
   single-option deviations; Cfgs(k) applies up to k deviations to every base, keeping the valid ones. *)
EXTENDS Integers, Sequences, FiniteSets, TLC

Classes == {"quantized_linear", "quantized_bits", "bernoulli", "ternary", "stochastic_ternary", "binary",
            "stochastic_binary", "quantized_relu", "quantized_ulaw", "quantized_tanh", "quantized_sigmoid",
            "quantized_po2", "quantized_relu_po2", "quantized_hswish"}

\* defaults: every constructor option of every class (var_name is an internal variable-naming aid and is left out)
Defaults(cls) ==
  CASE cls = "quantized_linear" ->
         [bits |-> "i:8", integer |-> "i:0", symmetric |-> "i:1", keep_negative |-> "b:1", alpha |-> "None",
          use_stochastic_rounding |-> "b:0", scale_axis |-> "None", qnoise_factor |-> "f:1.0", use_variables |-> "b:0"]
    [] cls = "quantized_bits" ->
         [bits |-> "i:8", integer |-> "i:0", symmetric |-> "i:0", keep_negative |-> "b:1", alpha |-> "None",
          use_stochastic_rounding |-> "b:0", scale_axis |-> "None", qnoise_factor |-> "f:1.0", use_ste |-> "b:1",
          use_variables |-> "b:0", elements_per_scale |-> "None", min_po2_exponent |-> "None",
          max_po2_exponent |-> "None", post_training_scale |-> "None"]
    [] cls = "bernoulli" -> [alpha |-> "None", temperature |-> "f:6.0", use_real_sigmoid |-> "b:1"]
    [] cls = "ternary" -> [alpha |-> "None", threshold |-> "None", use_stochastic_rounding |-> "b:0", number_of_unrolls |-> "i:5"]
    [] cls = "stochastic_ternary" ->
         [alpha |-> "None", threshold |-> "None", temperature |-> "f:8.0", use_real_sigmoid |-> "b:1", number_of_unrolls |-> "i:5"]
    [] cls = "binary" ->
         [use_01 |-> "b:0", alpha |-> "None", use_stochastic_rounding |-> "b:0", scale_axis |-> "None",
          elements_per_scale |-> "None", min_po2_exponent |-> "None", max_po2_exponent |-> "None"]
    [] cls = "stochastic_binary" -> [alpha |-> "None", temperature |-> "f:6.0", use_real_sigmoid |-> "b:1"]
    [] cls = "quantized_relu" ->
         [bits |-> "i:8", integer |-> "i:0", use_sigmoid |-> "i:0", negative_slope |-> "f:0.0", use_stochastic_rounding |-> "b:0",
          relu_upper_bound |-> "None", is_quantized_clip |-> "b:1", qnoise_factor |-> "f:1.0", use_ste |-> "b:1",
          use_variables |-> "b:0"]
    [] cls = "quantized_ulaw" -> [bits |-> "i:8", integer |-> "i:0", symmetric |-> "i:0", u |-> "f:255.0"]
    [] cls = "quantized_tanh" -> [bits |-> "i:8", use_stochastic_rounding |-> "b:0", symmetric |-> "b:0", use_real_tanh |-> "b:0"]
    [] cls = "quantized_sigmoid" -> [bits |-> "i:8", symmetric |-> "b:0", use_real_sigmoid |-> "b:0", use_stochastic_rounding |-> "b:0"]
    [] cls = "quantized_po2" ->
         [bits |-> "i:8", max_value |-> "None", use_stochastic_rounding |-> "b:0", quadratic_approximation |-> "b:0",
          log2_rounding |-> "s:rnd", qnoise_factor |-> "f:1.0", use_ste |-> "b:1", use_variables |-> "b:0"]
    [] cls = "quantized_relu_po2" ->
         [bits |-> "i:8", max_value |-> "None", negative_slope |-> "i:0", use_stochastic_rounding |-> "b:0",
          quadratic_approximation |-> "b:0", log2_rounding |-> "s:rnd", qnoise_factor |-> "f:1.0", use_ste |-> "b:1",
          use_variables |-> "b:0"]
    [] cls = "quantized_hswish" ->
         [bits |-> "i:8", integer |-> "i:0", symmetric |-> "i:0", alpha |-> "None", use_stochastic_rounding |-> "b:0",
          scale_axis |-> "None", qnoise_factor |-> "f:1.0", use_variables |-> "b:0", relu_shift |-> "i:3",
          relu_upper_bound |-> "i:6"]

\* base contexts (overrides of the defaults)
Bases(cls) ==
  CASE cls \in {"quantized_linear", "quantized_bits"} ->
         {<<>>, <<<<"bits", "i:4">>, <<"integer", "i:1">>>>, <<<<"bits", "i:4">>, <<"alpha", "s:auto">>>>,
          <<<<"bits", "i:4">>, <<"alpha", "s:auto_po2">>>>}
         \cup (IF cls = "quantized_bits"      \* contexts in which elements_per_scale (int / list form) is admissible
              THEN {<<<<"bits", "i:4">>, <<"alpha", "s:auto_po2">>, <<"scale_axis", "i:0">>>>,
                    <<<<"bits", "i:4">>, <<"alpha", "s:auto_po2">>, <<"scale_axis", "l:0 1">>>>} ELSE {})
    [] cls = "binary" -> {<<>>, <<<<"alpha", "s:auto">>>>, <<<<"alpha", "s:auto_po2">>>>,
                          <<<<"alpha", "s:auto_po2">>, <<"scale_axis", "i:0">>>>, <<<<"alpha", "s:auto_po2">>, <<"scale_axis", "l:0 1">>>>}
    [] cls \in {"ternary", "stochastic_binary", "stochastic_ternary", "bernoulli"} ->
         {<<>>, <<<<"alpha", "s:auto">>>>, <<<<"alpha", "s:auto_po2">>>>}
    [] cls = "quantized_relu" -> {<<>>, <<<<"bits", "i:4">>, <<"integer", "i:1">>>>,
                                  <<<<"bits", "i:4">>, <<"integer", "i:1">>, <<"is_quantized_clip", "b:0">>>>}   \* context in which relu_upper_bound acts
    [] cls \in {"quantized_po2", "quantized_relu_po2"} -> {<<>>, <<<<"bits", "i:4">>>>}
    [] cls = "quantized_hswish" -> {<<>>, <<<<"bits", "i:6">>, <<"integer", "i:2">>>>}
    [] OTHER -> {<<>>, <<<<"bits", "i:4">>>>}

\* single-option deviations
Devs(cls) ==
  CASE cls = "quantized_linear" ->
         {<<"bits", "i:3">>, <<"integer", "i:2">>, <<"symmetric", "i:0">>, <<"keep_negative", "b:0">>, <<"alpha", "f:2.0">>,
          <<"use_stochastic_rounding", "b:1">>, <<"scale_axis", "i:0">>, <<"qnoise_factor", "f:0.5">>, <<"use_variables", "b:1">>,
          <<"alpha", "v:0.5 2.0 1.0 0.25 1.5 4.0">>}      \* (a per-channel constant scale, as in the docstring's alpha=q.scale)
    [] cls = "quantized_bits" ->
         {<<"bits", "i:3">>, <<"integer", "i:2">>, <<"symmetric", "i:1">>, <<"keep_negative", "b:0">>, <<"alpha", "f:2.0">>,
          <<"use_stochastic_rounding", "b:1">>, <<"scale_axis", "i:0">>, <<"qnoise_factor", "f:0.5">>, <<"use_ste", "b:0">>,
          <<"use_variables", "b:1">>, <<"elements_per_scale", "i:2">>, <<"min_po2_exponent", "i:1">>, <<"max_po2_exponent", "i:-3">>,
          <<"scale_axis", "l:0 1">>, <<"elements_per_scale", "l:2 3">>, <<"post_training_scale", "a:0.5">>,
          <<"post_training_scale", "c:0.5 0.25 1.0 2.0">>}      \* (one scale per row: a (4, 1) array, needs scale_axis = 0)
          \* (an array-valued constant alpha is not in quantized_bits' domain: its constructor compares alpha with ==)
    [] cls = "bernoulli" -> {<<"alpha", "f:2.0">>, <<"temperature", "f:1.5">>, <<"use_real_sigmoid", "b:0">>}
    [] cls = "ternary" -> {<<"alpha", "f:2.0">>, <<"threshold", "f:0.75">>, <<"threshold", "f:0.0">>, <<"use_stochastic_rounding", "b:1">>,
                           <<"number_of_unrolls", "i:1">>}
    [] cls = "stochastic_ternary" -> {<<"threshold", "f:0.75">>, <<"temperature", "f:2.0">>,
                                      <<"use_real_sigmoid", "b:0">>, <<"number_of_unrolls", "i:1">>}
    [] cls = "binary" -> {<<"use_01", "b:1">>, <<"alpha", "f:2.0">>, <<"use_stochastic_rounding", "b:1">>, <<"scale_axis", "i:0">>,
                          <<"elements_per_scale", "i:2">>, <<"min_po2_exponent", "i:1">>, <<"max_po2_exponent", "i:-3">>,
                          <<"scale_axis", "l:0 1">>, <<"elements_per_scale", "l:2 3">>, <<"alpha", "v:0.5 2.0 1.0 0.25 1.5 4.0">>}
    [] cls = "stochastic_binary" -> {<<"alpha", "f:2.0">>, <<"temperature", "f:1.5">>, <<"use_real_sigmoid", "b:0">>}
    [] cls = "quantized_relu" ->
         {<<"bits", "i:3">>, <<"integer", "i:2">>, <<"use_sigmoid", "i:1">>, <<"negative_slope", "f:0.25">>,
          <<"use_stochastic_rounding", "b:1">>, <<"relu_upper_bound", "f:0.75">>, <<"relu_upper_bound", "f:1.5">>, <<"is_quantized_clip", "b:0">>,
          <<"qnoise_factor", "f:0.5">>, <<"use_ste", "b:0">>, <<"use_variables", "b:1">>}
    [] cls = "quantized_ulaw" -> {<<"bits", "i:3">>, <<"integer", "i:1">>, <<"symmetric", "i:1">>, <<"u", "f:15.0">>}
    [] cls = "quantized_tanh" -> {<<"bits", "i:3">>, <<"use_stochastic_rounding", "b:1">>, <<"symmetric", "b:1">>, <<"use_real_tanh", "b:1">>}
    [] cls = "quantized_sigmoid" -> {<<"bits", "i:3">>, <<"symmetric", "b:1">>, <<"use_real_sigmoid", "b:1">>, <<"use_stochastic_rounding", "b:1">>}
    [] cls = "quantized_po2" ->
         {<<"bits", "i:3">>, <<"max_value", "f:0.5">>, <<"max_value", "i:4">>, <<"use_stochastic_rounding", "b:1">>,
          <<"quadratic_approximation", "b:1">>, <<"log2_rounding", "s:floor">>, <<"qnoise_factor", "f:0.5">>,
          <<"use_ste", "b:0">>, <<"use_variables", "b:1">>}
    [] cls = "quantized_relu_po2" ->
         {<<"bits", "i:3">>, <<"max_value", "f:0.5">>, <<"max_value", "i:4">>, <<"negative_slope", "f:0.25">>,
          <<"negative_slope", "f:0.0009765625">>,       \* 2^-10: more significant digits than a short float format keeps
          <<"use_stochastic_rounding", "b:1">>, <<"quadratic_approximation", "b:1">>, <<"log2_rounding", "s:floor">>,
          <<"qnoise_factor", "f:0.5">>, <<"use_ste", "b:0">>, <<"use_variables", "b:1">>}
    [] cls = "quantized_hswish" ->
         {<<"bits", "i:4">>, <<"integer", "i:1">>, <<"symmetric", "i:1">>, <<"alpha", "f:2.0">>, <<"use_stochastic_rounding", "b:1">>,
          <<"qnoise_factor", "f:0.5">>, <<"use_variables", "b:1">>, <<"relu_shift", "i:2">>, <<"relu_upper_bound", "i:4">>,
          <<"relu_shift", "f:2.5">>, <<"relu_upper_bound", "f:5.5">>}

RECURSIVE ApplySeq(_, _)
ApplySeq(f, s) == IF s = <<>> THEN f ELSE ApplySeq([f EXCEPT ![Head(s)[1]] = Head(s)[2]], Tail(s))
RECURSIVE ApplySet(_, _)
ApplySet(f, S) == IF S = {} THEN f ELSE LET d == CHOOSE d \in S : TRUE IN ApplySet([f EXCEPT ![d[1]] = d[2]], S \ {d})
Has(o, k) == k \in DOMAIN o
IsAuto(o) == Has(o, "alpha") /\ o.alpha \in {"s:auto", "s:auto_po2"}

\* documented contracts of the constructors / calls (asserts and ValueErrors in the code; line numbers in DESIGN.md)
Valid(cls, o) ==
  /\ (Has(o, "elements_per_scale") /\ o.elements_per_scale # "None") => (o.alpha = "s:auto_po2" /\ o.scale_axis # "None")
  /\ (Has(o, "elements_per_scale") /\ o.elements_per_scale = "l:2 3") => o.scale_axis = "l:0 1"     \* one entry per scale axis
  /\ (Has(o, "elements_per_scale") /\ o.elements_per_scale = "i:2") => o.scale_axis = "i:0"
  /\ (Has(o, "post_training_scale") /\ o.post_training_scale # "None") => o.alpha = "s:auto_po2"     \* ValueError otherwise
  /\ (Has(o, "post_training_scale") /\ o.post_training_scale = "c:0.5 0.25 1.0 2.0") => o.scale_axis = "i:0"
  /\ (Has(o, "min_po2_exponent") /\ (o.min_po2_exponent # "None" \/ o.max_po2_exponent # "None")) => o.alpha = "s:auto_po2"
  /\ (cls \in {"ternary", "stochastic_ternary"} /\ IsAuto(o)) => o.threshold = "None"
  /\ (cls = "stochastic_ternary") => IsAuto(o)              \* training branch asserts a string alpha
  /\ (cls = "ternary" /\ ~IsAuto(o)) => o.use_stochastic_rounding = "b:0"
  \* (quantized_relu: relu_upper_bound together with is_quantized_clip = True is a legal configuration - the documented
  \*  precedence lets the quantized clip win; it has to survive the round trips like any other)
Distinct(S) == \A a, b \in S : a # b => a[1] # b[1]
Cfgs(cls, k) == {[cls |-> cls, opts |-> o] :
                   o \in {x \in {ApplySet(ApplySeq(Defaults(cls), b), S) : b \in Bases(cls),
                                                                           S \in {T \in SUBSET Devs(cls) : Cardinality(T) <= k /\ Distinct(T)}}
                          : Valid(cls, x)}}
AllCfgs(k) == UNION {Cfgs(cls, k) : cls \in Classes}
Routes == {"RT_FromConfig", "RT_Lookup", "RT_Keras", "RT_Str"}
=============================================================================
