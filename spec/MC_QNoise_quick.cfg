SPECIFICATION Spec
CONSTANTS MaxFinish = 4
          MaxFreq = 2
          MaxInit = 1
          Exponents = {1, 3}
          MaxEpochs = 2
          MaxBatches = 2
          MaxRuns = 2
INVARIANT InvApplied
INVARIANT InvEndPoints
INVARIANT InvInUnit
INVARIANT InvVariableBacked
PROPERTY NonDecreasing
