------------------------------ MODULE Trace_QOps ------------------------------
(* Judges what the real qtools reports (C19).  Events:
     {k:"count", g: geometry record, reported}                       operation_count of one layer
     {k:"energy", layers:[{name, cls, e100:[inputs,outputs,parameters,op_cost], ref100:[...]}], total,
                  sel:[[keys of layer 1], ...], extracted}           one QTools.pe(...) report (+ extract_energy_sum)
   e100 = reported entries x100; ref100 = the documented formulas re-evaluated by the harness from the reported
   types, counts and tensor sizes (float arithmetic, DESIGN 9), x100. *)
EXTENDS QOps, Json, IOUtils, TLC
Tr == ndJsonDeserialize(IOEnv.TRACE_FILE)
VARIABLE i
Abs(n) == IF n < 0 THEN -n ELSE n
CountVerdicts(ev) == IF ev.reported = MACs(ev.g) THEN <<>> ELSE <<"wrong_operation_count">>
EnergyVerdicts(ev) ==
  LET L == ev.layers IN
  (IF \E k \in 1..Len(L) : \E j \in 1..4 : L[k].e100[j] < 0 THEN <<"negative_energy_entry">> ELSE <<>>)
  \o (IF ev.total < 0 THEN <<"negative_total">> ELSE <<>>)
  \o (IF \E k \in 1..Len(L) : \E j \in 1..4 : Abs(L[k].e100[j] - L[k].ref100[j]) > 1
      THEN <<"entry_is_not_the_documented_function">> ELSE <<>>)
  \o (IF ~TotalConsistent(ev.total, L) THEN <<"total_is_not_the_sum_of_entries">> ELSE <<>>)
  \* int() of a float sum: an exact integer sum may come out one below (FloatSumTruncation)
  \o (IF 100 * ev.extracted > SelectedSum100(L, ev.sel) \/ 100 * ev.extracted < SelectedSum100(L, ev.sel) - 100 THEN <<"extracted_sum_is_not_the_sum_of_selected_entries">> ELSE <<>>)
  \* extract_energy_profile: per layer the sum of the selected entries (entries are 2-decimal floats: 1/100 slack)
  \o (IF \E k \in 1..Len(L) : Abs(ev.profile100[k] - SelectedSum100(<<L[k]>>, <<ev.sel[k]>>)) > 1
      THEN <<"profile_total_is_not_the_sum_of_selected_entries">> ELSE <<>>)
Verdicts(ev) == IF ev.k = "count" THEN CountVerdicts(ev) ELSE EnergyVerdicts(ev)
Init == i = 1
Next == /\ i <= Len(Tr)
        /\ LET v == Verdicts(Tr[i]) IN IF v # <<>> THEN PrintT(<<"REJECT", i, v>>) ELSE TRUE
        /\ i' = i + 1
Spec == Init /\ [][Next]_i
=============================================================================
