------------------------------ MODULE MC_BNFold ------------------------------
(* The folding algebra on all tiny instances: conv with the folded kernel plus the folded bias equals batch
   normalisation of conv plus bias (1x1 kernel, one or two channels), for both layer kinds. *)
EXTENDS BNFold, TLC
CONSTANTS Vals, Gams
VARIABLES x, k, b, mean, gam, beta, J, dw
vars == <<x, k, b, mean, gam, beta, J, dw>>
G1 == [sh |-> 1, sw |-> 1, dh |-> 1, dw |-> 1, pad |-> "valid"]
Init == /\ dw \in BOOLEAN
        /\ x \in [1..1 -> [1..2 -> [1..1 -> Vals]]]
        /\ k \in [1..1 -> [1..1 -> [1..1 -> [1..1 -> Vals]]]]
        /\ b \in [1..1 -> Vals] /\ mean \in [1..1 -> Vals] /\ beta \in [1..1 -> {-8, 0, 5}]
        /\ gam \in [1..1 -> Gams] /\ J \in [1..1 -> 0..2]
Next == FALSE /\ UNCHANGED vars
Spec == Init /\ [][Next]_vars
\* EX+EFK scale: folded bias (EFB = EX+EFK+3 with EX = -2, EK = -3, EB = -2: EFB - (EX+EFK) = 3)
FoldIsConvThenBN ==
  AddBias3(ConvOf(x, FoldedKernel(k, gam, J, dw), G1, dw), Scale1(FoldedBias(b, mean, gam, beta, J), 3))
  = BN3(AddBias3(ConvOf(x, k, G1, dw), Scale1(b, 3)), Scale1(mean, 3), gam, Scale1(beta, 3), J)
=============================================================================
