------------------------------ MODULE ModelGraphX ------------------------------
(* ModelGraph extended to the rest of the layer alphabet that property C12 quantifies over: Conv1D, separable
   convolutions, recurrent layers, average pooling - and to forked topologies (the rewriting is per layer, so the
   topology only matters to the implementation).

   Additional entries:
      "R"   {kernel_quantizer: qA, recurrent_quantizer: qR, bias_quantizer: bA, state_quantizer: qS}     (recurrent)
      "RA"  "R" plus recurrent_activation_quantizer: aR   (LSTM / GRU gates; a SimpleRNN has no gate activation)
      "SP"  {depthwise_quantizer: qA, pointwise_quantizer: qB, bias_quantizer: bA}                       (separable)
      "P"   {average_quantizer: qP}        "PB"  {average_quantizer: qP, activation_quantizer: aB}       (pooling)
   "A" and "B" keep their meaning for Conv1D and recurrent layers (kernel/bias resp. kernel/activation).
   Result records: [cls, kq, bq, rq, sq, pq, act, ra]  (rq recurrent, sq state, pq pointwise quantizer, ra the gate
   activation of LSTM / GRU: "none" = left as it was). *)
EXTENDS ModelGraph

RnnKinds == {"SimpleRNN", "LSTM", "GRU", "Bidirectional"}      \* Bidirectional(LSTM): both directions get the same record
SepKinds == {"SeparableConv1D", "SeparableConv2D"}
PoolKinds == {"AveragePooling2D", "GlobalAveragePooling2D"}
OldKinds == WeightKinds \cup {"Activation", "ReLU", "LeakyReLU", "BatchNormalization"}
NewKinds == {"Conv1D"} \cup RnnKinds \cup SepKinds \cup PoolKinds
\* a user-defined layer class (handed over in custom_objects): it has no quantized counterpart and no entry selects it
UserKinds == {"User"}
QNameX(kind) == IF kind \in NewKinds THEN "Q" \o kind ELSE QName(kind)
LookupX(dict, layer) == IF dict[layer.name] # "absent" THEN dict[layer.name] ELSE dict[QNameX(layer.kind)]
Lift(r) == [cls |-> r.cls, kq |-> r.kq, bq |-> r.bq, rq |-> "none", sq |-> "none", pq |-> "none", act |-> r.act, ra |-> "none"]
KeepX(layer) == Lift(Keep(layer))
KernelX(e) == IF e \in {"A", "R", "RA", "SP"} THEN "qA" ELSE IF e = "B" THEN "qB" ELSE "none"
BiasX(e) == IF e \in {"A", "R", "RA", "SP"} THEN "bA" ELSE "none"

DesignLayerX(dict, layer) ==
  IF layer.kind \in UserKinds THEN KeepX(layer) ELSE
  LET e == LookupX(dict, layer) IN
  IF layer.kind \in OldKinds THEN Lift(DesignLayer(dict, layer))
  ELSE IF layer.kind = "Conv1D" THEN
       IF e \notin {"A", "B"} THEN KeepX(layer)
       ELSE [KeepX(layer) EXCEPT !.cls = "QConv1D", !.kq = KernelX(e), !.bq = IF layer.bias THEN BiasX(e) ELSE "none",
                                 !.act = IF e = "B" THEN "aB" ELSE ByBits(layer.act)]
  ELSE IF layer.kind \in RnnKinds THEN
       IF e \notin {"A", "B", "R", "RA"} THEN KeepX(layer)
       ELSE [KeepX(layer) EXCEPT !.cls = "Q" \o layer.kind, !.kq = KernelX(e),
                                 !.bq = IF layer.bias THEN BiasX(e) ELSE "none",
                                 !.rq = IF e \in {"R", "RA"} THEN "qR" ELSE "none", !.sq = IF e \in {"R", "RA"} THEN "qS" ELSE "none",
                                 !.act = IF e = "B" THEN "aB" ELSE ByBits(layer.act),
                                 !.ra = IF e = "RA" /\ layer.kind # "SimpleRNN" THEN "aR" ELSE "none"]
  ELSE IF layer.kind \in SepKinds THEN
       IF e # "SP" THEN KeepX(layer)
       ELSE [KeepX(layer) EXCEPT !.cls = "Q" \o layer.kind, !.kq = "qA", !.pq = "qB",
                                 !.bq = IF layer.bias THEN "bA" ELSE "none", !.act = ByBits(layer.act)]
  ELSE \* pooling
       IF e \notin {"P", "PB"} THEN KeepX(layer)
       ELSE [KeepX(layer) EXCEPT !.cls = "Q" \o layer.kind, !.kq = "qP", !.act = IF e = "PB" THEN "aB" ELSE "keep:linear"]
DesignQuantizeX(dict, model) == [k \in 1..Len(model) |-> DesignLayerX(dict, model[k])]

\* ---- properties (C12) on the extended description
SelectedX(dict, layer) == layer.kind \notin UserKinds /\ (dict[layer.name] # "absent" \/ dict[QNameX(layer.kind)] # "absent")
PropUnselectedUnchangedX(dict, model, res) == \A k \in 1..Len(model) : ~SelectedX(dict, model[k]) => res[k] = KeepX(model[k])
PropBiaslessX(model, res) == \A k \in 1..Len(model) : ~model[k].bias => res[k].bq = "none"
PropNameBeatsClassX(dict, model, res) ==
  \A k \in 1..Len(model) :
     (model[k].kind \notin UserKinds /\ dict[model[k].name] # "absent")
        => res[k] = DesignLayerX([dict EXCEPT ![QNameX(model[k].kind)] = "absent"], model[k])
PropCounterpartX(model, res) ==
  \A k \in 1..Len(model) : IF model[k].kind \in UserKinds THEN res[k].cls = model[k].kind
                            ELSE res[k].cls \in {model[k].kind, QNameX(model[k].kind)}
\* a quantized counterpart carries exactly the quantizer roles its class has
PropRolesX(model, res) ==
  \A k \in 1..Len(model) :
     /\ (res[k].rq # "none" \/ res[k].sq # "none") => model[k].kind \in RnnKinds
     /\ res[k].pq # "none" => model[k].kind \in SepKinds
     /\ res[k].cls = model[k].kind => (res[k].kq = "none" /\ res[k].bq = "none" /\ res[k].rq = "none" /\ res[k].pq = "none")
=============================================================================
