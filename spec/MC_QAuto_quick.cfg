SPECIFICATION Spec
CONSTANTS MaxBits = 5
          Vals <- ValsDef
          Len3 = 3
INVARIANT InWidth
INVARIANT MaxOnTopCodeExactly
INVARIANT ZeroGroupFinite
INVARIANT Equivariant
INVARIANT HalfStepError
