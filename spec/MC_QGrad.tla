------------------------------ MODULE MC_QGrad ------------------------------
(* C06 on every cell of every fixed-point configuration: the derivative of the evaluated expression equals the
   surrogate derivative for the straight-through forms at every qnoise factor, is zero exactly on the documented
   clipped cells, and is not identically zero on the unclipped range.  (use_ste = False is a separate configuration
   family whose Design differs from Prop by design: that is finding F-C06-1, excluded from the invariant here.) *)
EXTENDS QGrad, TLC
CONSTANTS MaxBits
VARIABLES c, p, seenNonZero
vars == <<c, p, seenNonZero>>
Fs == {<<0, 0>>, <<1, -1>>, <<1, 0>>}
Base(cls, b, k, s, sl, clip, ub, f) ==
  [cls |-> cls, bits |-> b, int |-> 0, kn |-> k, sym |-> s, sl |-> sl, al |-> <<1, 0>>, clip |-> clip, ub |-> ub,
   ste |-> 1, f |-> f]
Cfgs == {x \in
          {Base(cls, b, k, s, 0, "q", <<0, 0>>, f) : cls \in {"bits"}, b \in 2..MaxBits, k \in {0, 1}, s \in {0, 1}, f \in Fs}
          \cup {Base("linear", b, k, s, 0, "q", <<0, 0>>, <<1, 0>>) : b \in 2..MaxBits, k \in {0, 1}, s \in {0, 1}}
          \cup {Base("relu", b, 0, 0, sl, clip, <<1, -1>>, f) : b \in 2..MaxBits, sl \in 0..2, clip \in {"q", "none", "ub"}, f \in Fs}
          \cup {Base(cls, b, 1, s, 0, "q", <<0, 0>>, <<1, 0>>) : cls \in {"tanh", "sigmoid"}, b \in 2..MaxBits, s \in {0, 1}}
        : NonSignBits(x) >= 1 /\ SlopeFitsGrid(x)}
FirstPos(x) == <<4 * LoCode(x) - 8, 0>>
LastQ(x) == 4 * (M(x) - 1) + 8
NextCell(q) == IF q[2] = 0 THEN <<q[1], 1>> ELSE <<q[1] + 1, 0>>
\* tanh / sigmoid: cells are positions of the surrogate value; saturation |x| >= 1 <=> value at the end of its range
Sat(x, q) == IF x.cls = "tanh" THEN (IF q[1] <= -4 * M(x) \/ q[1] >= 4 * M(x) THEN -1 ELSE 0)
             ELSE IF x.cls = "sigmoid" THEN (IF q[1] <= 0 \/ q[1] >= 4 * M(x) THEN -1 ELSE 0) ELSE 0
Init == c \in Cfgs /\ p = FirstPos(c) /\ seenNonZero = FALSE
Step == /\ p[1] <= LastQ(c)
        /\ p' = NextCell(p)
        /\ seenNonZero' = (seenNonZero \/ \E g \in DesignGrad(c, p', Sat(c, p')) : g # G0)
        /\ c' = c
Spec == Init /\ [][Step]_vars
GradIsSurrogate == PropHolds(c, p, Sat(c, p))
\* zero on cells strictly outside the documented clip range (quantized_linear, clipped ReLU)
ZeroWhereClipped ==
  /\ (c.cls = "linear" /\ (p[1] < 4 * LoCode(c) \/ p[1] > 4 * HiCode(c))) => DesignGrad(c, p, 0) = {G0}
  /\ (c.cls = "relu" /\ c.clip # "none" /\ p[1] > 4 * HiCode(c)) => DesignGrad(c, p, 0) = {G0}
\* not identically zero on the unclipped range: by the end of the sweep a non-zero gradient was seen
NotIdenticallyZero == p[1] > LastQ(c) => seenNonZero
\* independent of the qnoise factor for straight-through forms
QNoiseIndependent == c.cls \in {"bits", "relu"} => DesignGrad(c, p, 0) = DesignGrad([c EXCEPT !.f = <<1, 0>>], p, 0)
=============================================================================
