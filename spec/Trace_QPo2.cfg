SPECIFICATION Spec
