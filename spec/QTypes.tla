------------------------------- MODULE QTypes -------------------------------
(* qtools data types and their value lattices (properties C16, C17).

   Values are pairs <<c, e>> = c * 2^e with c an integer (exact).
   OPERAND types describe what the originating QKeras quantizer emits:
      [src |-> "bits" | "relu" | "po2" | "relu_po2" | "ternary" | "binary" | "binary01",
       bits, int, kn, hasmv, mvk, mvm]                   (po2 sources: max_value = mvm * 2^mvk, mvm in {1, 3})
   REPORTED types are what qtools prints for an operator output:
      [mode, po2 |-> BOOLEAN, bits, int, sg, hasmv, mvk]  (max_val_po2 = 2^mvk; mode as in the multiplier table)
   mode 0 (fixed point) denotes two's-complement codes c * 2^-frac with frac = bits - sg - int (negative: step > 1);
   mode 2 / 3 / 4 denote {-1,0,1} / {-1,1} / {0,1};
   a po2 reported type denotes {0} \cup {+-2^e : e in the interval of quantizer_impl.get_exp}. *)
EXTENDS Integers, Sequences, FiniteSets
Pow2(k) == IF k < 0 THEN 0 ELSE 2^k           \* total: a malformed reported type (bits < sign + 1) must yield a verdict, not an evaluation error
Max(a, b) == IF a >= b THEN a ELSE b
Min(a, b) == IF a <= b THEN a ELSE b
Abs(n) == IF n < 0 THEN -n ELSE n
RECURSIVE Log2Ceil(_)
Log2Ceil(n) == IF n <= 1 THEN 0 ELSE 1 + Log2Ceil((n + 1) \div 2)
RECURSIVE TrailingZeros(_)
TrailingZeros(n) == IF n = 0 \/ (n % 2) # 0 THEN 0 ELSE 1 + TrailingZeros(n \div 2)
IsPow2Nat(n) == n > 0 /\ Pow2(Log2Ceil(n)) = n

\* ------------------------------------------------------------ operand value lattices (QKeras semantics, C01 / C03)
\* ceil(log2 max_value) = round(log2 max_value) for mvm in {1, 3}: the clamp max_value is itself quantized to 2^that
MvCeil(o) == o.mvk + (IF o.mvm = 3 THEN 2 ELSE 0)
MvLeqOne(o) == o.hasmv /\ (IF o.mvm = 3 THEN o.mvk <= -2 ELSE o.mvk <= 0)
NeedSign(o) == IF MvLeqOne(o) THEN 0 ELSE 1
Po2Eff(o) == IF o.src = "po2" THEN o.bits - 1 - NeedSign(o) ELSE o.bits - NeedSign(o)
Po2MinE(o) == -Pow2(Po2Eff(o))
Po2MaxE(o) == LET m == Pow2(Po2Eff(o)) - 1 IN IF o.hasmv THEN Min(m, Max(MvCeil(o), Po2MinE(o))) ELSE m
OperandValues(o) ==
  CASE o.src = "bits" -> {<<c, o.int - (o.bits - o.kn)>> :
                            c \in (IF o.kn = 1 THEN -Pow2(o.bits - 1) ELSE 0) .. (Pow2(o.bits - o.kn) - 1)}
    [] o.src = "relu" -> {<<c, o.int - o.bits>> : c \in 0 .. (Pow2(o.bits) - 1)}
    [] o.src = "po2" -> {<<s, e>> : s \in {-1, 1}, e \in Po2MinE(o) .. Po2MaxE(o)}
    [] o.src = "relu_po2" -> {<<1, e>> : e \in Po2MinE(o) .. Po2MaxE(o)}
    [] o.src = "ternary" -> {<<-1, 0>>, <<0, 0>>, <<1, 0>>}
    [] o.src = "binary" -> {<<-1, 0>>, <<1, 0>>}
    [] o.src = "binary01" -> {<<0, 0>>, <<1, 0>>}
\* the most negative two's-complement code of a signed fixed-point operand (the statement's exception)
IsMostNegative(o, v) == o.src = "bits" /\ o.kn = 1 /\ v[1] = -Pow2(o.bits - 1)
Mul(a, b) == <<a[1] * b[1], a[2] + b[2]>>

\* ------------------------------------------------------------ how qtools sees an operand (quantizer_impl.convert_*)
Mode(o) == CASE o.src = "relu" /\ o.bits = 1 /\ o.int = 1 -> 4      \* quantized_relu(1,1) emits {0,1}
             [] o.src \in {"bits", "relu"} -> 0 [] o.src \in {"po2", "relu_po2"} -> 1 [] o.src = "ternary" -> 2
             [] o.src = "binary" -> 3 [] o.src = "binary01" -> 4
QT(o) ==    \* [mode, bits, int, sg, po2, hasmv, mvk, bin01 (the qtools object is a Binary(use_01) quantizer)]
  CASE o.src = "bits" -> [mode |-> 0, bits |-> o.bits, int |-> o.int, sg |-> o.kn, po2 |-> FALSE, hasmv |-> FALSE, mvk |-> 0, bin01 |-> FALSE]
    [] o.src = "relu" -> [mode |-> IF o.bits = 1 /\ o.int = 1 THEN 4 ELSE 0, bits |-> o.bits, int |-> o.int, sg |-> 0,
                          po2 |-> FALSE, hasmv |-> FALSE, mvk |-> 0, bin01 |-> FALSE]
    [] o.src = "po2" -> [mode |-> 1, bits |-> o.bits, int |-> o.bits, sg |-> 1, po2 |-> TRUE, hasmv |-> o.hasmv, mvk |-> MvCeil(o), bin01 |-> FALSE]
    [] o.src = "relu_po2" -> [mode |-> 1, bits |-> o.bits, int |-> o.bits, sg |-> 0, po2 |-> TRUE, hasmv |-> o.hasmv, mvk |-> MvCeil(o), bin01 |-> FALSE]
    [] o.src = "ternary" -> [mode |-> 2, bits |-> 2, int |-> 2, sg |-> 1, po2 |-> FALSE, hasmv |-> FALSE, mvk |-> 0, bin01 |-> FALSE]
    [] o.src = "binary" -> [mode |-> 3, bits |-> 1, int |-> 1, sg |-> 1, po2 |-> FALSE, hasmv |-> FALSE, mvk |-> 0, bin01 |-> FALSE]
    [] o.src = "binary01" -> [mode |-> 4, bits |-> 1, int |-> 1, sg |-> 0, po2 |-> FALSE, hasmv |-> FALSE, mvk |-> 0, bin01 |-> TRUE]

\* ------------------------------------------------------------ reported types: representability
\* quantizer_impl.get_exp: exponent interval [-(2^(nsb-1)), max_exp] of a reported po2 type
GetExpMin(t) == Pow2(t.bits - t.sg - 1)
GetExpMax(t) == LET orig == Pow2(t.bits - t.sg - 1) - 1 IN
                IF ~t.hasmv THEN Max(0, orig) ELSE Max(0, Min(t.mvk, orig))
Frac(t) == t.bits - t.sg - t.int
CodeLo(t) == IF t.sg = 1 THEN -Pow2(t.bits - 1) ELSE 0
CodeHi(t) == IF t.sg = 1 THEN Pow2(t.bits - 1) - 1 ELSE Pow2(t.bits) - 1
RECURSIVE BitLenN(_)
BitLenN(n) == IF n = 0 THEN 0 ELSE 1 + BitLenN(n \div 2)
\* v = c * 2^-f for a code c of the type?   (types up to 30 bits; larger magnitudes cannot be codes)
RepWithFrac(v, t, f) ==
  LET sh == v[2] + f IN
  IF v[1] = 0 THEN TRUE
  ELSE IF sh >= 0 THEN (BitLenN(Abs(v[1])) + sh <= 30 /\
                        v[1] * Pow2(sh) >= CodeLo(t) /\ v[1] * Pow2(sh) <= CodeHi(t))
  ELSE (TrailingZeros(Abs(v[1])) >= -sh /\ (v[1] \div Pow2(-sh)) >= CodeLo(t) /\ (v[1] \div Pow2(-sh)) <= CodeHi(t))
\* int_bits > bits - sign occurs both for coarse formats (step > 1, e.g. quantized_bits(2,2)) and for types derived
\* from the 1-/2-bit alphabets, where qtools sets int_bits = bits; both readings are accepted (AmbiguousIntBits)
RepFixed(v, t) == RepWithFrac(v, t, Frac(t)) \/ (Frac(t) < 0 /\ RepWithFrac(v, t, 0))
RepPo2(v, t) ==
  IF v[1] = 0 THEN TRUE
  ELSE LET tz == TrailingZeros(Abs(v[1]))  m == Abs(v[1]) \div Pow2(tz)  e == v[2] + tz IN
       m = 1 /\ (v[1] < 0 => t.sg = 1) /\ e >= -GetExpMin(t) /\ e <= GetExpMax(t)
SmallSet(t) == IF t.mode = 2 THEN {-1, 0, 1} ELSE IF t.mode = 3 THEN {-1, 1} ELSE {0, 1}
RepSmall(v, t) == IF v[1] = 0 THEN 0 \in SmallSet(t)
                  ELSE LET tz == TrailingZeros(Abs(v[1])) IN
                       v[2] + tz = 0 /\ Abs(v[1]) = Pow2(tz) /\ (IF v[1] > 0 THEN 1 ELSE -1) \in SmallSet(t)
\* a small-alphabet type needs enough bits for its alphabet
SmallTypeWideEnough(t) == (t.mode = 2 => t.bits >= 2) /\ (t.mode \in {3, 4} => t.bits >= 1)
Rep(v, t) == IF t.po2 THEN RepPo2(v, t) ELSE IF t.mode \in {2, 3, 4} THEN RepSmall(v, t) ELSE RepFixed(v, t)
\* extreme values of a reported type
TypeMax(t) == IF t.po2 THEN <<1, GetExpMax(t)>> ELSE IF t.mode \in {2, 3, 4} THEN <<1, 0>> ELSE <<CodeHi(t), -Frac(t)>>
TypeMin(t) == IF t.po2 THEN (IF t.sg = 1 THEN <<-1, GetExpMax(t)>> ELSE <<0, 0>>)
              ELSE IF t.mode \in {2, 3} THEN <<-1, 0>> ELSE IF t.mode = 4 THEN <<0, 0>> ELSE <<CodeLo(t), -Frac(t)>>
TypeStepE(t) == IF t.po2 THEN -GetExpMin(t) ELSE IF t.mode \in {2, 3, 4} THEN 0 ELSE -Max(0, Frac(t))   \* (AmbiguousIntBits: finest reading)

\* ------------------------------------------------------------ C16: property
PropProducts(w, x, out) ==
  \A a \in OperandValues(w) : \A b \in OperandValues(x) :
     (IsMostNegative(w, a) /\ IsMostNegative(x, b)) \/ Rep(Mul(a, b), out)
\* weaker reading used to classify failures: additionally exempt the negation of a most negative code (-2^(b-1) times
\* a negative value of the other operand), the usual two's-complement asymmetry
PropProductsUpToNegatedMin(w, x, out) ==
  \A a \in OperandValues(w) : \A b \in OperandValues(x) :
     (IsMostNegative(w, a) /\ b[1] < 0) \/ (IsMostNegative(x, b) /\ a[1] < 0) \/ Rep(Mul(a, b), out)
\* enough to look at the extreme and finest values (lemma checked against PropProducts in MC_QTypes)
Corners(o) == LET V == OperandValues(o) IN
  {v \in V : \A u \in V : u[1] * Pow2(Max(0, u[2] - v[2])) <= v[1] * Pow2(Max(0, v[2] - u[2]))}         \* max
  \cup {v \in V : \A u \in V : u[1] * Pow2(Max(0, u[2] - v[2])) >= v[1] * Pow2(Max(0, v[2] - u[2]))}    \* min
PropKind(w, x) ==      \* implementation the operand kinds call for
  LET mw == Mode(w)  mx == Mode(x) IN
  IF mw = 4 \/ mx = 4 THEN "and"
  ELSE IF mw = 0 /\ mx = 0 THEN "mul"
  ELSE IF (mw = 1 /\ mx = 0) \/ (mw = 0 /\ mx = 1) THEN "shifter"
  ELSE IF mw = 1 /\ mx = 1 THEN "add"
  ELSE IF mw = 3 /\ mx = 3 THEN "xor"
  ELSE "mux"

\* ------------------------------------------------------------ C16: design (multiplier_impl.py, multiplier_factory.py)
FixedT(bits, int, sg) == [mode |-> 0, po2 |-> FALSE, bits |-> bits, int |-> int, sg |-> sg, hasmv |-> FALSE, mvk |-> 0, bin01 |-> FALSE]
Po2T(bits, int, sg, hasmv, mvk) == [mode |-> 1, po2 |-> TRUE, bits |-> bits, int |-> int, sg |-> sg, hasmv |-> hasmv, mvk |-> mvk, bin01 |-> FALSE]
TernaryT == [mode |-> 2, po2 |-> FALSE, bits |-> 2, int |-> 2, sg |-> 1, hasmv |-> FALSE, mvk |-> 0, bin01 |-> FALSE]
BinaryT(m) == [mode |-> m, po2 |-> FALSE, bits |-> 1, int |-> 1, sg |-> (IF m = 3 THEN 1 ELSE 0), hasmv |-> FALSE, mvk |-> 0, bin01 |-> FALSE]
Or(a, b) == IF a = 1 \/ b = 1 THEN 1 ELSE 0
DesignFixedPointMultiplier(w, x) ==
  LET i == x.int + w.int
      f == (x.bits - x.sg - x.int) + (w.bits - w.sg - w.int)
      s == Or(x.sg, w.sg)
  IN FixedT(i + f + s, i, s)
DesignShifter(w, x) ==
  LET p == IF w.mode = 1 THEN w ELSE x
      q == IF w.mode = 1 THEN x ELSE w
      mn == GetExpMin(p)   mx == GetExpMax(p)
  IN FixedT(q.bits + mx + mn + (IF q.sg = 0 /\ p.sg = 1 THEN 1 ELSE 0), q.int + mx, Or(q.sg, p.sg))
DesignAdder(w, x) ==     \* po2 x po2
  LET hm == w.hasmv /\ x.hasmv IN
  Po2T(Max(x.bits, w.bits) + 1, Max(x.int, w.int) + 1, Or(x.sg, w.sg), hm, IF hm THEN w.mvk + x.mvk ELSE 0)
\* Mux: the ternary/binary side selects, the other side passes; output kind from the table
DesignMux(w, x, outpo2) ==
  LET wsel == w.mode \in {2, 3}
      pass == IF wsel THEN x ELSE w
      sel == IF wsel THEN w ELSE x
      sg == Or(x.sg, w.sg)
      bits == pass.bits + (IF pass.sg = 0 /\ sel.sg = 1 THEN 1 ELSE 0)
  IN IF outpo2
     THEN LET src == IF w.mode = 1 THEN w ELSE x IN Po2T(bits, bits, sg, src.hasmv, src.mvk)
     ELSE FixedT(bits, pass.int, sg)
DesignXor(w, x) == BinaryT(3)
DesignAnd(w, x, outpo2) ==
  LET bits == Max(x.bits, w.bits)
      int == IF w.mode = 4 THEN x.int ELSE w.int       \* every 0/1 gate weight (binary(use_01), bernoulli, quantized_relu(1,1))
      sg == Or(x.sg, w.sg)
  IN IF outpo2 THEN LET src == IF w.mode = 1 THEN w ELSE x IN Po2T(bits, int, sg, src.hasmv, src.mvk)
     ELSE FixedT(bits, int, sg)
\* outputs declared "ternary" by the table keep the ternary type untouched
DesignMultiplier(w, x) ==        \* w, x in qtools form (QT)
  LET mw == w.mode  mx == x.mode IN
  IF mw = 0 /\ mx = 0 THEN DesignFixedPointMultiplier(w, x)
  ELSE IF (mw = 1 /\ mx = 0) \/ (mw = 0 /\ mx = 1) THEN DesignShifter(w, x)
  ELSE IF mw = 1 /\ mx = 1 THEN DesignAdder(w, x)
  ELSE IF mw = 4 \/ mx = 4 THEN
       (IF {mw, mx} \subseteq {2, 3, 4} /\ {mw, mx} # {4} THEN TernaryT
        ELSE IF mw = 4 /\ mx = 4 THEN BinaryT(4)
        ELSE DesignAnd(w, x, mw = 1 \/ mx = 1))
  ELSE IF mw = 3 /\ mx = 3 THEN DesignXor(w, x)
  ELSE IF {mw, mx} \subseteq {2, 3} THEN      \* Mux with a Ternary() output object: width copied from the input side
       [TernaryT EXCEPT !.bits = x.bits + (IF x.sg = 0 /\ w.sg = 1 THEN 1 ELSE 0), !.int = x.int, !.sg = Or(x.sg, w.sg)]
  ELSE DesignMux(w, x, mw = 1 \/ mx = 1)

\* ------------------------------------------------------------ C17: accumulators and adders
Po2ToQbits(t) == FixedT(t.sg + GetExpMin(t) + GetExpMax(t), GetExpMax(t), t.sg)
DesignAccumulator(n, m, bias) ==
  LET lg == Log2Ceil(n + (IF bias THEN 1 ELSE 0))
      b == IF m.po2 THEN Po2ToQbits(m) ELSE m
  IN FixedT(lg + b.bits, lg + b.int, m.sg)
DesignFixedPointAdder(a, b) ==
  LET i == Max(a.int, b.int) + 1
      f == Max(a.bits - a.sg - a.int, b.bits - b.sg - b.int)
      s == Or(a.sg, b.sg)
  IN FixedT(i + s + f, i, s)
\* adder_impl_table: every po2 operand is first converted with po2_to_qbits, except the entry [po2][binary 0/1],
\* which is the plain FixedPointAdder on the raw fields (TableEntryPo2Binary01)
DesignAdderType(a, b) ==
  IF a.mode = 1 /\ b.mode = 4 THEN DesignFixedPointAdder(a, b)
  ELSE DesignFixedPointAdder(IF a.po2 THEN Po2ToQbits(a) ELSE a, IF b.po2 THEN Po2ToQbits(b) ELSE b)
Scale(v, n) == <<v[1] * n, v[2]>>
Add(a, b) == LET e == Min(a[2], b[2]) IN <<a[1] * Pow2(a[2] - e) + b[1] * Pow2(b[2] - e), e>>
\* AmbiguousIntBits: a property holds if it holds under one consistent reading of int_bits > bits - sign
\* (r = TRUE: fractions clamped at 0, r = FALSE: true negative fractions = coarse steps)
FracR(t, r) == IF r THEN Max(0, Frac(t)) ELSE Frac(t)
RepR(v, t, r) == IF t.po2 THEN RepPo2(v, t) ELSE IF t.mode \in {2, 3, 4} THEN RepSmall(v, t) ELSE RepWithFrac(v, t, FracR(t, r))
TypeMaxR(t, r) == IF t.po2 \/ t.mode \in {2, 3, 4} THEN TypeMax(t) ELSE <<CodeHi(t), -FracR(t, r)>>
TypeMinR(t, r) == IF t.po2 \/ t.mode \in {2, 3, 4} THEN TypeMin(t) ELSE <<CodeLo(t), -FracR(t, r)>>
StepR(t, r) == IF t.po2 THEN -GetExpMin(t) ELSE IF t.mode \in {2, 3, 4} THEN 0 ELSE -FracR(t, r)
\* any sum of n values of type m lies between n*min and n*max on m's grid: both ends must be representable
PropAccumulatorR(n, m, acc, r) == /\ RepR(Scale(TypeMaxR(m, r), n), acc, r) /\ RepR(Scale(TypeMinR(m, r), n), acc, r)
                                  /\ StepR(acc, r) <= StepR(m, r)
PropAccumulator(n, m, acc) == PropAccumulatorR(n, m, acc, TRUE) \/ PropAccumulatorR(n, m, acc, FALSE)
PropAdderR(a, b, out, r) == /\ RepR(Add(TypeMaxR(a, r), TypeMaxR(b, r)), out, r)
                            /\ RepR(Add(TypeMinR(a, r), TypeMinR(b, r)), out, r)
                            /\ StepR(out, r) <= Min(StepR(a, r), StepR(b, r))
PropAdder(a, b, out) == PropAdderR(a, b, out, TRUE) \/ PropAdderR(a, b, out, FALSE)
\* which part of the adder / accumulator / containment property fails (for the identity of a finding); the reading of
\* AmbiguousIntBits with fewer failing parts is reported
AdderPartsR(a, b, out, r) ==
  (IF RepR(Add(TypeMaxR(a, r), TypeMaxR(b, r)), out, r) THEN {} ELSE {"top"})
  \cup (IF RepR(Add(TypeMinR(a, r), TypeMinR(b, r)), out, r) THEN {} ELSE {"bottom"})
  \cup (IF StepR(out, r) <= Min(StepR(a, r), StepR(b, r)) THEN {} ELSE {"step"})
AccPartsR(n, m, acc, r) ==
  (IF RepR(Scale(TypeMaxR(m, r), n), acc, r) THEN {} ELSE {"top"})
  \cup (IF RepR(Scale(TypeMinR(m, r), n), acc, r) THEN {} ELSE {"bottom"})
  \cup (IF StepR(acc, r) <= StepR(m, r) THEN {} ELSE {"step"})
ContainPartsR(a, out, r) ==
  (IF RepR(TypeMaxR(a, r), out, r) THEN {} ELSE {"top"}) \cup (IF RepR(TypeMinR(a, r), out, r) THEN {} ELSE {"bottom"})
  \cup (IF StepR(out, r) <= StepR(a, r) THEN {} ELSE {"step"})
Fewer(P1, P2) == IF Cardinality(P1) <= Cardinality(P2) THEN P1 ELSE P2
AdderParts(a, b, out) == Fewer(AdderPartsR(a, b, out, TRUE), AdderPartsR(a, b, out, FALSE))
AccParts(n, m, acc) == Fewer(AccPartsR(n, m, acc, TRUE), AccPartsR(n, m, acc, FALSE))
MergeSelectParts(a, b, out) == Fewer(ContainPartsR(a, out, TRUE) \cup ContainPartsR(b, out, TRUE),
                                     ContainPartsR(a, out, FALSE) \cup ContainPartsR(b, out, FALSE))
PartName(P) == IF "step" \in P THEN (IF P = {"step"} THEN "step" ELSE "range_and_step") ELSE "range"
\* ------------------------------------------------------------ merge layers (merge_factory.py)
\* Add: the adder property on the two operand types.  Maximum / Minimum / Concatenate select operand values: the output
\* type has to contain both operand types.
PropContainsR(a, out, r) == RepR(TypeMaxR(a, r), out, r) /\ RepR(TypeMinR(a, r), out, r) /\ StepR(out, r) <= StepR(a, r)
PropMergeSelect(a, b, out) == \E r \in BOOLEAN : PropContainsR(a, out, r) /\ PropContainsR(b, out, r)
\* as the code computes (after the repair of FractionDroppedByMerge): widest integer part and finest fraction
Qb(t) == IF t.po2 THEN Po2ToQbits(t) ELSE t
MFrac(t) == Qb(t).bits - Qb(t).int - Qb(t).sg
DesignMergeAdd(a, b) == LET i == Max(Qb(a).int, Qb(b).int) + 1  s == Or(a.sg, b.sg)
                        IN FixedT(i + s + Max(0, Max(MFrac(a), MFrac(b))), i, s)
DesignMergeSelect(a, b) == LET i == Max(Qb(a).int, Qb(b).int)  s == Or(a.sg, b.sg)
                           IN FixedT(i + s + Max(0, Max(MFrac(a), MFrac(b))), i, s)
=============================================================================
