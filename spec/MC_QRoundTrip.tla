---------------------------- MODULE MC_QRoundTrip ----------------------------
(* C09 / C10 (print direction) at the specification level: every round-trip route is a stuttering step on the
   configuration (hence on the quantization function); compositions of routes up to MaxDepth.  The reachable
   (configuration, route sequence) pairs are the behaviours the driver replays on real quantizer objects. *)
EXTENDS QSchema
CONSTANTS K, MaxDepth
VARIABLES cfg, hist, orig
vars == <<cfg, hist, orig>>
Init == cfg \in AllCfgs(K) /\ hist = <<>> /\ orig = cfg
RT(r) == Len(hist) < MaxDepth /\ cfg' = cfg /\ hist' = Append(hist, r) /\ orig' = orig
Next == \E r \in Routes : RT(r)
Spec == Init /\ [][Next]_vars
\* the property: the rebuilt quantizer has the configuration (and therefore computes the function) of the original
Stutter == cfg = orig
EveryOptionPresent == DOMAIN cfg.opts = DOMAIN Defaults(cfg.cls)
ASSUME PrintT(<<"CFGS", AllCfgs(K)>>)
=============================================================================
