SPECIFICATION Spec
CONSTANTS MaxBits = 8
          MaxInt = 2
INVARIANT Representable
INVARIANT AtMostTwoPowBits
INVARIANT AllCodesReached
INVARIANT RangeIsReachable
INVARIANT Nearest
INVARIANT HalfStep
INVARIANT Idempotent
PROPERTY Monotone
