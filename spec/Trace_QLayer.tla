----------------------------- MODULE Trace_QLayer -----------------------------
(* Judges recorded calls of real quantized layers (property C11).  The driver gives every layer recording proxy
   quantizers (any callable is accepted as a quantizer) and integer-coded dyadic data, so that TLC can recompute the
   layer exactly.  Event fields:
     cls, g [sh, sw, dh, dw, pad], usebias, hasact, ph, pw (pool window)
     applied   roles in the order the layer applied its quantizers during the call
     reported  roles of layer.get_quantizers() (non-None entries, in order)
     x, qk, qk2, qb, pre   integer tensors: input, quantized kernel(s), quantized bias, value handed to the activation
                           quantizer (= layer output when there is none); common scale chosen by the driver
     qm   integer multiplier of the quantized reciprocal for pooling layers
     stock   1 iff the stock Keras layer loaded with the recorded quantized weights (+ recorded activation quantizer)
             returns bit-identical outputs;   kind "plain": a layer without quantizers vs the stock layer *)
EXTENDS QLayer, Json, IOUtils, TLC
Tr == ndJsonDeserialize(IOEnv.TRACE_FILE)
VARIABLE i
Lift1(v) == <<<<v>>>>                                   \* [n] -> [1][1][n]   (not used for dense)
Expected(ev) ==
  CASE ev.cls = "QDense" -> IF ev.usebias = 1 THEN AddBias1(Dense(ev.x, ev.qk), ev.qb) ELSE Dense(ev.x, ev.qk)
    [] ev.cls \in {"QConv2D", "QConv1D"} ->
         IF ev.usebias = 1 THEN AddBias3(Conv2D(ev.x, ev.qk, ev.g), ev.qb) ELSE Conv2D(ev.x, ev.qk, ev.g)
    [] ev.cls = "QDepthwiseConv2D" ->
         IF ev.usebias = 1 THEN AddBias3(Depthwise(ev.x, ev.qk, ev.g), ev.qb) ELSE Depthwise(ev.x, ev.qk, ev.g)
    [] ev.cls \in {"QSeparableConv2D", "QSeparableConv1D"} ->
         LET one == [sh |-> 1, sw |-> 1, dh |-> 1, dw |-> 1, pad |-> "valid"]
             y == Conv2D(Depthwise(ev.x, ev.qk, ev.g), ev.qk2, one)
         IN IF ev.usebias = 1 THEN AddBias3(y, ev.qb) ELSE y
    [] ev.cls = "QAveragePooling2D" ->
         LET s == PoolSum(ev.x, ev.ph, ev.pw, ev.g.sh, ev.g.sw) IN
         [a \in 1..Len(s) |-> [b \in 1..Len(s[1]) |-> [c \in 1..Len(s[1][1]) |-> s[a][b][c] * ev.qm]]]
    [] ev.cls = "QScaleShift" ->           \* one scalar weight and one scalar bias shared by the whole tensor
         [k \in 1..Len(ev.x) |-> ev.x[k] * ev.qk[1][1] + (IF ev.usebias = 1 THEN ev.qb[1] ELSE 0)]
    [] ev.cls = "QGlobalAveragePooling2D" ->
         LET s == GlobalSum(ev.x) IN [c \in 1..Len(s) |-> s[c] * ev.qm]
Verdicts(ev) ==
  IF ev.kind = "plain" THEN (IF ev.stock = 1 THEN <<>> ELSE <<"layer_without_quantizers_differs_from_stock_layer">>)
  ELSE IF ev.kind = "strq" THEN        \* layer built from quantizer strings: get_quantizers() = the applied objects
       (IF ev.applied_ok = 1 THEN <<>> ELSE <<"get_quantizers_is_not_what_is_applied">>)
  ELSE IF ev.kind = "rnn" THEN
       (IF ev.stock = 1 THEN <<>> ELSE <<"differs_from_stock_layer_with_quantized_weights">>)
       \o (IF ev.applied_ok = 1 THEN <<>> ELSE <<"quantizers_applied_out_of_pipeline_order">>)
  ELSE (IF ev.applied # Pipeline(ev.cls, ev.usebias = 1, ev.hasact = 1) THEN <<"quantizers_applied_out_of_pipeline_order">> ELSE <<>>)
    \o (IF ev.reported # SelectSeq(ev.applied, LAMBDA r : r # "activation") THEN <<"get_quantizers_is_not_what_is_applied">> ELSE <<>>)
    \o (IF ev.pre # Expected(ev) THEN <<"output_is_not_the_op_on_quantized_weights">> ELSE <<>>)
    \o (IF ev.stock # 1 THEN <<"differs_from_stock_layer_with_quantized_weights">> ELSE <<>>)
    \o (IF ev.area_ok # 1 THEN <<"pooling_reciprocal_is_not_one_over_the_pooling_area">> ELSE <<>>)
Init == i = 1
Next == /\ i <= Len(Tr)
        /\ LET v == Verdicts(Tr[i]) IN IF v # <<>> THEN PrintT(<<"REJECT", i, v>>) ELSE TRUE
        /\ i' = i + 1
Spec == Init /\ [][Next]_i
=============================================================================
