SPECIFICATION Spec
CONSTANTS MaxLen = 2
INVARIANT UnselectedUnchanged
INVARIANT BiaslessNoBiasQuantizer
INVARIANT NameBeatsClass
INVARIANT ClassIsCounterpart
INVARIANT RolesFitClass
