SPECIFICATION Spec
CONSTANTS MaxBits = 8
          Vals <- ValsDef
          Len3 = 4
INVARIANT InWidth
INVARIANT MaxOnTopCodeExactly
INVARIANT ZeroGroupFinite
INVARIANT Equivariant
INVARIANT HalfStepError
