SPECIFICATION Spec
CONSTANTS MaxFinish = 6
          MaxFreq = 3
          MaxInit = 2
          Exponents = {1, 2, 3}
          MaxEpochs = 3
          MaxBatches = 2
          MaxRuns = 2
INVARIANT InvApplied
INVARIANT InvEndPoints
INVARIANT InvInUnit
INVARIANT InvVariableBacked
PROPERTY NonDecreasing
