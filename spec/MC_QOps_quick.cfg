SPECIFICATION Spec
CONSTANTS MaxN = 7
          MaxK = 3
INVARIANT OutSizeIsPositionCount
INVARIANT ClosedFormIsLoopNest
