------------------------------- MODULE QPo2 -------------------------------
(* Power-of-two quantizers of qkeras/quantizers.py: quantized_po2 and quantized_relu_po2 (property C03).

   Configuration  [cls, bits, hasmv, mvk, sl, mode]
      cls   \in {"po2", "relu_po2"}
      hasmv  TRUE: max_value = 2^mvk        sl  k >= 1: negative_slope = 2^-k, 0: none      mode \in {"rnd","floor"}
   A magnitude cell is <<k, r>>: the magnitude lies in the binade [2^k, 2^(k+1)) at relative position
      r = 0 exactly 2^k | 1 just above 2^k (inside the float32 log2 band) | 2 below the geometric midpoint sqrt(2)*2^k
          3 at the midpoint (band) | 4, 5 above the midpoint | 6 just below 2^(k+1) (band)
   Log2Band: ln(x)/ln(2) is evaluated in float32; within 2^-14 of a rounding boundary either neighbour is admissible. *)
EXTENDS F32

NeedSignBit(c) == IF c.hasmv /\ c.mvk <= 0 THEN 0 ELSE 1          \* max_value <= 1: the exponent sign bit is reused
EffBits(c) == IF c.cls = "po2" THEN c.bits - 1 - NeedSignBit(c) ELSE c.bits - NeedSignBit(c)
MinExp(c) == -Pow2(EffBits(c))
MaxExp(c) == Pow2(EffBits(c)) - 1
\* largest admissible exponent once the max_value clamp is taken into account
TopExp(c) == IF c.hasmv THEN Min(MaxExp(c), Max(c.mvk, MinExp(c))) ELSE MaxExp(c)

\* K.epsilon() = 1e-7 compared in float32: float32(1e-7) = 14073749 * 2^-47, in binade -24 above the midpoint
EpsF32 == <<14073749, -47>>
EpsCell == <<-24, 5>>
CellLess(a, b) == a[1] < b[1] \/ (a[1] = b[1] /\ a[2] < b[2])
IsBand(p) == p[2] \in {1, 3, 6}

\* ------------------------------------------------------------ design: _clip_power_of_two as the code computes it
\* x_filter: epsilon floor, then clamp at max_value
DesignClamp(c, p) == IF c.hasmv /\ ~CellLess(p, <<c.mvk, 0>>) THEN <<c.mvk, 0>> ELSE p
DesignLog2(c, p) ==
  IF c.mode = "rnd" THEN (IF p[2] <= 2 THEN {p[1]} ELSE IF p[2] = 3 THEN {p[1], p[1] + 1} ELSE {p[1] + 1})
  ELSE (IF p[2] = 1 THEN {p[1] - 1, p[1]} ELSE IF p[2] = 6 THEN {p[1], p[1] + 1} ELSE {p[1]})
\* zero: TRUE when the magnitude is 0 (or below epsilon): the exponent is min_exp
DesignExp(c, p, belowEps) ==
  IF belowEps THEN {MinExp(c)}
  ELSE {ClipI(e, MinExp(c), MaxExp(c)) : e \in DesignLog2(c, DesignClamp(c, p))}

\* ------------------------------------------------------------ properties (C03)
PropExpInRange(c, e) == e \in MinExp(c)..MaxExp(c)
PropNotAboveMaxValue(c, e) == c.hasmv => e <= Max(c.mvk, MinExp(c))
\* position in twelfths of a binade; admissible exponents: MinExp..TopExp
Pos12(p) == 12 * p[1] + (CASE p[2] = 0 -> 0 [] p[2] = 1 -> 1 [] p[2] = 2 -> 3 [] p[2] = 3 -> 6
                           [] p[2] = 4 -> 8 [] p[2] = 5 -> 9 [] p[2] = 6 -> 11)
Dist12(e, p) == Abs(12 * e - Pos12(p))
PropLog2Nearest(c, p, belowEps, e) ==
  IF belowEps THEN e = MinExp(c)
  ELSE LET adm == MinExp(c)..TopExp(c) IN
       /\ e \in adm
       /\ IF c.mode = "rnd"
          THEN \A e2 \in adm : Dist12(e, p) <= Dist12(e2, p)
          ELSE LET fl == {f \in adm : 12 * f <= Pos12(p)}               \* floor: largest admissible exponent below
                   best == IF fl = {} THEN MinExp(c) ELSE CHOOSE f \in fl : \A g \in fl : g <= f
               IN \/ e = best
                  \/ (p[2] = 1 /\ e = Max(best - 1, MinExp(c)))          \* Log2Band just above an integer
                  \/ (p[2] = 6 /\ e = Min(best + 1, TopExp(c)))          \* Log2Band just below an integer
IdemDom(c) == c.cls = "po2" \/ c.sl = 0
=============================================================================
