------------------------------- MODULE QGrad -------------------------------
(* Gradients of the quantizers (property C06): the forward value is quantized, the gradient w.r.t. the input is the
   gradient of the documented unquantized surrogate.  Gradients are piecewise constant on the same cells as the
   forward map, so they are sets of dyadics {0, 1, slope, 1/2}; both one-sided values are admissible at a kink.

   Fixed-point configurations are QFixed records extended with  ste (use_ste 0/1) and  f (qnoise_factor dyadic).
   p is the position of the input on the step grid (QFixed!Pos); for tanh/sigmoid it is the position of the hard
   surrogate value and  sat \in {-1,0,1} tells whether the input is beyond / at / inside the saturation |x| = 1. *)
EXTENDS QFixed

G0 == <<0, 0>>
G1 == <<1, 0>>
GHalf == <<1, -1>>
GSlope(c) == IF c.sl = 0 THEN G0 ELSE <<1, -c.sl>>

\* ---- property: derivative of the documented surrogate -------------------------------------------------------------
\* region of a position w.r.t. a closed interval [lo4, hi4] given in quarter steps: "in", "out" or "edge"
Region(p, lo4, hi4) ==
  IF p[1] < lo4 \/ p[1] > hi4 \/ (p[1] = hi4 /\ p[2] > 0) THEN "out"
  ELSE IF (p[1] = lo4 /\ p[2] = 0) \/ (p[1] = hi4 /\ p[2] = 0) THEN "edge" ELSE "in"
Pick(region, inside) == IF region = "in" THEN {inside} ELSE IF region = "out" THEN {G0} ELSE {G0, inside}

PropGradBits(c, p) == {G1}                                  \* identity surrogate, never clipped in the gradient
PropGradLinear(c, p) ==                                     \* identity inside the clip range, zero outside (documented)
  Pick(Region(p, 4 * (c.kn * (-M(c) + c.sym)), 4 * (M(c) - 1)), G1)
PropGradRelu(c, p) ==
  LET bound4 == IF c.clip = "q" THEN 4 * (M(c) - 1) ELSE IF c.clip = "ub" THEN 4 * UbCode(c) ELSE 4 * BigPos
      neg == p[1] < 0
      zero == p[1] = 0 /\ p[2] = 0
  IN IF zero THEN {G0, GSlope(c), G1}
     ELSE IF neg THEN {GSlope(c)}
     ELSE IF p[1] > bound4 \/ (p[1] = bound4 /\ p[2] > 0) THEN {G0}
     ELSE IF p[1] = bound4 THEN {G0, G1} ELSE {G1}
\* hard tanh / sigmoid: inner slope on |x| < 1, then the outer clip of the rounded value to the code range
PropGradSurr(c, p, sat, inner) ==
  LET pre == NearestQ(p[1], p[2])
      lo == IF c.cls = "tanh" THEN -M(c) + c.sym ELSE c.sym
      allin == \A v \in pre : v >= lo /\ v <= M(c) - 1
      allout == \A v \in pre : v < lo \/ v > M(c) - 1
      base == IF sat = 0 THEN {inner} ELSE IF sat = 1 THEN {G0} ELSE {G0, inner}
  IN IF allin THEN base ELSE IF allout THEN {G0} ELSE base \cup {G0}
PropGrad(c, p, sat) ==
  CASE c.cls = "bits" -> PropGradBits(c, p)
    [] c.cls = "linear" -> PropGradLinear(c, p)
    [] c.cls = "relu" -> PropGradRelu(c, p)
    [] c.cls = "tanh" -> PropGradSurr(c, p, sat, G1)
    [] c.cls = "sigmoid" -> PropGradSurr(c, p, sat, GHalf)

\* ---- design: derivative of the expression the code evaluates ----------------------------------------------------
\* STE form   s(x) + stop_gradient(f * (q - s(x)))           -> s'(x), independent of f
\* mixed form (1 - f) * s(x) + stop_gradient(f * q)          -> (1 - f) * s'(x)      (use_ste = False)
\* quantized_linear  x + f * (xq - x), xq = scale * round_through(clip(x/scale))  -> 1 + f * (clip' - 1)
ScaleBy(gs, k) == {Mul32(g, k) : g \in gs}
DesignGrad(c, p, sat) ==
  LET s == IF c.cls = "bits" THEN {G1} ELSE PropGrad(c, p, sat) IN
  IF c.cls = "linear" THEN {Add32(G1, Mul32(c.f, Add32(g, <<-1, 0>>))) : g \in PropGradLinear(c, p)}
  ELSE IF c.cls \in {"tanh", "sigmoid"} THEN s
  ELSE IF c.ste = 1 THEN s ELSE ScaleBy(s, Sub32(G1, c.f))
\* the statement: gradient = surrogate gradient
PropHolds(c, p, sat) == DesignGrad(c, p, sat) \subseteq PropGrad(c, p, sat)
=============================================================================
