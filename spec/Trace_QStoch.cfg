SPECIFICATION Spec
