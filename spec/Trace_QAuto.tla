----------------------------- MODULE Trace_QAuto -----------------------------
(* Judges recorded tensor calls of fixed-point quantizers with a data-derived scale (property C05):
   quantized_bits / quantized_linear with alpha in {"auto", "auto_po2"} and frozen post-training scales.
   One event per call (flat row-major tensors of dyadics):
     cls "bits" | "linear", bits, int, kn, sym, ak "auto" | "auto_po2" | "pts"
     shape, sa, eps, hasmin/minp/hasmax/maxp     grouping and exponent bounds (QBinTern)
     x, y          input, output          s   scale exposed after the call, broadcast to the input shape
     qs            quantized_linear: quantization_scale (broadcast); legacy: equal to s
     k, y2, s2     k # 0: second call on 2^k * x  (scale equivariance) *)
EXTENDS QBinTern, Json, IOUtils, TLC
Tr == ndJsonDeserialize(IOEnv.TRACE_FILE)
VARIABLE i

UB(ev) == ev.bits - ev.kn
StepE(ev) == ev.int - UB(ev)
\* code range of the declared width
HiCode(ev) == IF ev.cls = "bits" THEN Pow2(ev.bits - 1) - 1 ELSE Pow2(UB(ev)) - 1
LoCode(ev) == IF ev.cls = "bits" THEN -(Pow2(ev.bits - 1) - 1) ELSE ev.kn * (-Pow2(UB(ev)) + ev.sym)
\* quantized value for integer code z
XQ(ev, k, z) == IF ev.cls = "bits" THEN Mul32(ev.s[k], Norm(<<z, StepE(ev)>>)) ELSE Mul32(<<z, 0>>, ev.qs[k])
Unit(ev, k) == IF ev.cls = "bits" THEN Mul32(ev.s[k], P2(StepE(ev))) ELSE ev.qs[k]

\* approximate floor(|y| / |p|) (within 1) on 15-bit truncated mantissas, saturating at 999; exactness is not needed:
\* the candidates are verified exactly afterwards
Top15(a) == LET bl == BitLen(a[1]) IN IF bl >= 15 THEN a[1] \div Pow2(bl - 15) ELSE a[1] * Pow2(15 - bl)
Quot(y, p) ==
  LET a == Norm(DAbs(y))  b == Norm(DAbs(p))  t == Lead(a) - Lead(b) IN
  IF a[1] = 0 THEN 0 ELSE IF b[1] = 0 THEN 999
  ELSE IF t > 9 THEN 999 ELSE IF t < -1 THEN 0
  ELSE IF t >= 0 THEN (Top15(a) * Pow2(t)) \div Top15(b) ELSE Top15(a) \div (Top15(b) * Pow2(-t))
ZCands(ev, k) == LET q == Quot(ev.y[k], Unit(ev, k))  sg == IF ev.y[k][1] < 0 THEN -1 ELSE 1 IN
                 {sg * (q - 1), sg * q, sg * (q + 1), sg * (q + 2), 0}
\* integer codes that explain the output as the float32 value of x + (scale*code - x)
CodesOf(ev, k) == {z \in ZCands(ev, k) : Eq(ev.y[k], Ste32(ev.x[k], XQ(ev, k, z)))}
N(ev) == Prod(ev.shape)
Idx(ev) == 1..N(ev)
Key(ev, k) == GroupKey(ev.shape, ev.sa, ev.eps, k)

Finite(ev) == TRUE     \* non-finite values cannot be encoded: the driver reports them as their own clause
ElementClauses(ev) ==
  IF \E k \in Idx(ev) : CodesOf(ev, k) = {} THEN <<"y_not_scale_times_code">>
  ELSE IF \E k \in Idx(ev) : \A z \in CodesOf(ev, k) : z < LoCode(ev) \/ z > HiCode(ev) THEN <<"code_out_of_range">>
  ELSE <<>>
ScaleClauses(ev) ==
  (IF \E k \in Idx(ev) : ev.s[k][1] <= 0 THEN <<"scale_not_positive">> ELSE <<>>)
  \o (IF \E a, b \in Idx(ev) : Key(ev, a) = Key(ev, b) /\ ~Eq(ev.s[a], ev.s[b]) THEN <<"scale_not_per_channel">> ELSE <<>>)
  \o (IF ev.ak = "auto_po2" /\ \E k \in Idx(ev) : ev.s[k][1] > 0 /\ ~IsPow2(ev.s[k]) THEN <<"scale_not_pow2">> ELSE <<>>)
  \o (IF ev.ak = "auto_po2" /\ \E k \in Idx(ev) : ev.s[k][1] > 0 /\ IsPow2(ev.s[k]) /\
           LET e == Norm(ev.s[k])[2] - (IF ev.cls = "bits" THEN UB(ev) ELSE 0) IN
           (ev.hasmin = 1 /\ e < ev.minp) \/ (ev.hasmax = 1 /\ e > ev.maxp)
      THEN <<"scale_outside_bounds">> ELSE <<>>)
\* alpha = "auto": the largest magnitude of every group sits on the top code and is reproduced (not clipped)
\* signed formats: largest magnitude; unsigned quantized_linear: largest value (only if positive)
Measure(ev, k) == IF ev.kn = 1 \/ ev.cls = "bits" THEN DAbs(ev.x[k]) ELSE ev.x[k]
IsGroupMax(ev, k) == \A j \in Idx(ev) : Key(ev, j) = Key(ev, k) => Leq(Measure(ev, j), Measure(ev, k))
\* EpsFloor: the scale is floored at K.epsilon(); groups whose scale sits on that floor are not judged here
AboveEpsFloor(ev, k) == Lead(ev.qs[k]) > -21
AutoClause(ev) ==
  IF ev.ak # "auto" \/ ElementClauses(ev) # <<>> THEN <<>>
  ELSE IF \E k \in Idx(ev) : IsGroupMax(ev, k) /\ Measure(ev, k)[1] > 0 /\ AboveEpsFloor(ev, k) /\
            ~(LET top == IF ev.x[k][1] > 0 THEN HiCode(ev) ELSE (IF ev.cls = "bits" THEN LoCode(ev) ELSE -HiCode(ev))
                  d == DAbs(Sub32(ev.y[k], ev.x[k]))
              IN top \in CodesOf(ev, k) /\ Leq(d, Scale2(DAbs(ev.x[k]), -20)))
       THEN <<"auto_clips_or_misplaces_maximum">> ELSE <<>>
\* scale equivariance (outputs, as stated): q(2^k x) = 2^k q(x)
\* auto_po2: log2(scale + K.epsilon()) is not exactly equivariant; a snap to the neighbouring power of two in one of
\* the two calls is the documented epsilon artefact (deviation), anything else is a violation
FlipOnly(ev, j) == ev.ak = "auto_po2" /\ ev.s[j][1] > 0 /\ ev.s2[j][1] > 0 /\
                   (Eq(ev.s2[j], Scale2(ev.s[j], ev.k + 1)) \/ Eq(ev.s2[j], Scale2(ev.s[j], ev.k - 1)))
EquivClause(ev) ==
  IF ev.k = 0 THEN <<>>
  ELSE IF \E j \in Idx(ev) : ~Eq(ev.y2[j], Scale2(ev.y[j], ev.k)) /\ ~FlipOnly(ev, j)
       THEN <<"not_scale_equivariant">>
  ELSE IF \E j \in Idx(ev) : ~Eq(ev.y2[j], Scale2(ev.y[j], ev.k)) THEN <<"DEV_po2_scale_flip_at_epsilon">> ELSE <<>>
Verdicts(ev) == ElementClauses(ev) \o ScaleClauses(ev) \o AutoClause(ev) \o EquivClause(ev)
Init == i = 1
Next == /\ i <= Len(Tr)
        /\ LET v == Verdicts(Tr[i]) IN IF v # <<>> THEN PrintT(<<"REJECT", i, v>>) ELSE TRUE
        /\ i' = i + 1
Spec == Init /\ [][Next]_i
=============================================================================
