------------------------------ MODULE MC_QStoch ------------------------------
(* C08 on every cell x every draw: adjacent codes only, codes unchanged, exact unbiasedness identity over the draw
   lattice {1,3,..,15}/16, and the inference-phase map is the deterministic map. *)
EXTENDS QStoch, TLC
CONSTANTS MaxBits
VARIABLES c, p, u16, c4
vars == <<c, p, u16, c4>>
Draws == {0, 1, 3, 5, 7, 9, 11, 13, 15, 16}
Mid == {1, 3, 5, 7, 9, 11, 13, 15}
Base(cls, b, k, s, sl) ==
  [cls |-> cls, bits |-> b, int |-> 0, kn |-> k, sym |-> s, sl |-> sl, al |-> <<1, 0>>, clip |-> "q", ub |-> <<0, 0>>]
Cfgs == {x \in {Base(cls, b, k, s, 0) : cls \in {"bits", "linear"}, b \in 2..MaxBits, k \in {0, 1}, s \in {0, 1}}
               \cup {Base("relu", b, 0, 0, sl) : b \in 2..MaxBits, sl \in 0..2}
               \cup {Base(cls, b, 1, s, 0) : cls \in {"tanh", "sigmoid"}, b \in 2..MaxBits, s \in {0, 1}}
          : NonSignBits(x) >= 1 /\ SlopeFitsGrid(x)}
FirstPos(x) == <<4 * LoCode(x) * (IF x.cls = "relu" THEN Pow2(x.sl) ELSE 1) - 8, 0>>
LastQ(x) == 4 * (M(x) - 1) + 8
NextCell(q) == IF q[2] = 0 THEN <<q[1], 1>> ELSE <<q[1] + 1, 0>>
Init == c \in Cfgs /\ p = FirstPos(c) /\ u16 \in Draws /\ c4 \in DesignStoch(c, p, u16)
Step == /\ p[1] <= LastQ(c)
        /\ p' = NextCell(p)
        /\ c4' \in DesignStoch(c, p', u16)
        /\ UNCHANGED <<c, u16>>
Spec == Init /\ [][Step]_vars
Adjacent == PropAdjacent(c, p, c4)
CodesFixed == PropCodesFixed(c, p, c4)
\* exact cells inside the range: the eight midpoint draws average to the input exactly
Only(S) == CHOOSE v \in S : TRUE
Unbiased == LET s == SurrogatePos(c, p) IN
  (p[2] = 0 /\ s[2] = 0 /\ s[1] >= 4 * LoCode(c) /\ s[1] <= 4 * HiCode(c) /\ c.cls # "linear" /\
   \A u \in Mid : Cardinality(DesignStoch(c, p, u)) = 1)
  => LET sum == Only(DesignStoch(c, p, 1)) + Only(DesignStoch(c, p, 3)) + Only(DesignStoch(c, p, 5))
              + Only(DesignStoch(c, p, 7)) + Only(DesignStoch(c, p, 9)) + Only(DesignStoch(c, p, 11))
              + Only(DesignStoch(c, p, 13)) + Only(DesignStoch(c, p, 15))
     IN sum = 8 * s[1]
=============================================================================
