SPECIFICATION Spec
CONSTANTS MaxBits = 7
INVARIANT GradIsSurrogate
INVARIANT ZeroWhereClipped
INVARIANT NotIdenticallyZero
INVARIANT QNoiseIndependent
