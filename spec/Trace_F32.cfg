SPECIFICATION Spec
